package main

// Source instrumentation for native replays of schedule-dependent findings:
// the focus packages' files (as they are in /repo now, plus harness overlay
// files of those packages) get a zzverif.SchedPoint call at every place where
// the symbolic interpreter has a scheduling point, and go statements go
// through zzverif.SchedGo. Typed ASTs are used so that only real sync.Mutex /
// RWMutex / WaitGroup methods and channel operations are matched.

import (
	"bytes"
	"fmt"
	"go/ast"
	"go/format"
	"go/token"
	"go/types"
	"os"
	"path/filepath"
	"strings"

	"golang.org/x/tools/go/packages"
)

var syncPre = map[string]string{
	"(*sync.Mutex).Lock": "Lock", "(*sync.RWMutex).Lock": "Lock", "(*sync.RWMutex).RLock": "RLock",
	"(*sync.WaitGroup).Wait": "wg.Wait", "runtime.Gosched": "Gosched", "(*sync.Mutex).TryLock": "TryLock",
}
// releases (Unlock, RUnlock, WaitGroup.Add/Done) are not scheduling points
var syncPost = map[string]string{}

type instrumenter struct {
	info     *types.Info
	fset     *token.FileSet
	warnings []string
	changed  bool
}

func pointCall(what string) ast.Stmt {
	return &ast.ExprStmt{X: &ast.CallExpr{
		Fun:  &ast.SelectorExpr{X: ast.NewIdent("zzvsched"), Sel: ast.NewIdent("SchedPoint")},
		Args: []ast.Expr{&ast.BasicLit{Kind: token.STRING, Value: fmt.Sprintf("%q", what)}},
	}}
}

func (in *instrumenter) callKind(c *ast.CallExpr) (pre, post string) {
	switch f := c.Fun.(type) {
	case *ast.SelectorExpr:
		if obj, ok := in.info.Uses[f.Sel].(*types.Func); ok {
			n := obj.FullName()
			return syncPre[n], syncPost[n]
		}
	case *ast.Ident:
		if b, ok := in.info.Uses[f].(*types.Builtin); ok && b.Name() == "close" {
			return "close", ""
		}
	}
	return "", ""
}

// opsIn lists the scheduling points of the expressions evaluated by statement
// s itself (not by nested statement lists or function literals).
func (in *instrumenter) opsIn(n ast.Node) (pre, post []string) {
	if n == nil {
		return
	}
	ast.Inspect(n, func(x ast.Node) bool {
		switch v := x.(type) {
		case *ast.FuncLit, *ast.BlockStmt:
			return false
		case *ast.SelectStmt:
			return false
		case *ast.UnaryExpr:
			if v.Op == token.ARROW {
				pre = append(pre, "recv")
			}
		case *ast.SendStmt:
			pre = append(pre, "send")
		case *ast.CallExpr:
			a, b := in.callKind(v)
			if a != "" {
				pre = append(pre, a)
			}
			if b != "" {
				post = append(post, b)
			}
		}
		return true
	})
	return
}

func (in *instrumenter) list(stmts []ast.Stmt) []ast.Stmt {
	var out []ast.Stmt
	for _, s := range stmts {
		var pre, post []string
		switch v := s.(type) {
		case *ast.SelectStmt:
			pre = []string{"select"}
			for _, c := range v.Body.List {
				cc := c.(*ast.CommClause)
				cc.Body = in.list(cc.Body)
			}
		case *ast.GoStmt:
			in.nested(v.Call)
			ok := true
			for _, a := range v.Call.Args {
				switch a.(type) {
				case *ast.Ident, *ast.SelectorExpr, *ast.BasicLit:
				default:
					ok = false
				}
			}
			if !ok {
				in.warnings = append(in.warnings, fmt.Sprintf("%s: go statement with computed arguments not instrumented", in.fset.Position(v.Pos())))
				break
			}
			in.changed = true
			wrapped := &ast.ExprStmt{X: &ast.CallExpr{
				Fun: &ast.SelectorExpr{X: ast.NewIdent("zzvsched"), Sel: ast.NewIdent("SchedGo")},
				Args: []ast.Expr{&ast.FuncLit{Type: &ast.FuncType{Params: &ast.FieldList{}},
					Body: &ast.BlockStmt{List: []ast.Stmt{&ast.ExprStmt{X: v.Call}}}}},
			}}
			out = append(out, wrapped)
			continue
		case *ast.DeferStmt:
			in.nested(v.Call)
			a, b := in.callKind(v.Call)
			if a != "" || b != "" {
				in.changed = true
				body := []ast.Stmt{}
				if a != "" {
					body = append(body, pointCall(a))
				}
				body = append(body, &ast.ExprStmt{X: v.Call})
				if b != "" {
					body = append(body, pointCall(b))
				}
				v.Call = &ast.CallExpr{Fun: &ast.FuncLit{Type: &ast.FuncType{Params: &ast.FieldList{}}, Body: &ast.BlockStmt{List: body}}}
			}
		case *ast.BlockStmt:
			v.List = in.list(v.List)
		case *ast.IfStmt:
			pre, post = in.header(v.Init, v.Cond)
			in.ifStmt(v)
		case *ast.ForStmt:
			pre, post = in.header(v.Init, nil)
			if a, b := in.opsIn(v.Cond); len(a)+len(b) > 0 {
				in.warnings = append(in.warnings, fmt.Sprintf("%s: synchronisation in a loop condition not instrumented", in.fset.Position(v.Pos())))
			}
			if v.Post != nil {
				if a, b := in.opsIn(v.Post); len(a)+len(b) > 0 {
					in.warnings = append(in.warnings, fmt.Sprintf("%s: synchronisation in a loop post statement not instrumented", in.fset.Position(v.Pos())))
				}
			}
			v.Body.List = in.list(v.Body.List)
		case *ast.RangeStmt:
			if t := in.info.TypeOf(v.X); t != nil {
				if _, ok := t.Underlying().(*types.Chan); ok {
					// one receive per iteration: before the loop and at the end of each body
					pre = append(pre, "recv")
					v.Body.List = append(in.list(v.Body.List), pointCall("recv"))
					in.changed = true
					in.warnings = append(in.warnings, fmt.Sprintf("%s: range over a channel (continue statements skip the scheduling point)", in.fset.Position(v.Pos())))
					break
				}
			}
			a, b := in.opsIn(v.X)
			pre, post = a, b
			v.Body.List = in.list(v.Body.List)
		case *ast.SwitchStmt:
			pre, post = in.header(v.Init, v.Tag)
			for _, c := range v.Body.List {
				cc := c.(*ast.CaseClause)
				cc.Body = in.list(cc.Body)
			}
		case *ast.TypeSwitchStmt:
			pre, post = in.header(v.Init, v.Assign)
			for _, c := range v.Body.List {
				cc := c.(*ast.CaseClause)
				cc.Body = in.list(cc.Body)
			}
		case *ast.LabeledStmt:
			inner := in.list([]ast.Stmt{v.Stmt})
			if len(inner) == 1 {
				v.Stmt = inner[0]
			} else {
				v.Stmt = &ast.BlockStmt{List: inner}
			}
		default:
			pre, post = in.opsIn(s)
			in.nested(s)
		}
		for _, p := range pre {
			out = append(out, pointCall(p))
			in.changed = true
		}
		out = append(out, s)
		for _, p := range post {
			out = append(out, pointCall(p))
			in.changed = true
		}
	}
	return out
}

func (in *instrumenter) header(init ast.Stmt, e ast.Node) (pre, post []string) {
	if init != nil {
		a, b := in.opsIn(init)
		pre, post = append(pre, a...), append(post, b...)
	}
	if e != nil {
		a, b := in.opsIn(e)
		pre, post = append(pre, a...), append(post, b...)
	}
	return
}

func (in *instrumenter) ifStmt(v *ast.IfStmt) {
	v.Body.List = in.list(v.Body.List)
	switch e := v.Else.(type) {
	case *ast.BlockStmt:
		e.List = in.list(e.List)
	case *ast.IfStmt:
		if a, b := in.header(e.Init, e.Cond); len(a)+len(b) > 0 {
			in.warnings = append(in.warnings, fmt.Sprintf("%s: synchronisation in an else-if header not instrumented", in.fset.Position(e.Pos())))
		}
		in.ifStmt(e)
	}
}

// nested instruments the bodies of function literals inside n.
func (in *instrumenter) nested(n ast.Node) {
	ast.Inspect(n, func(x ast.Node) bool {
		if fl, ok := x.(*ast.FuncLit); ok {
			fl.Body.List = in.list(fl.Body.List)
			return false
		}
		return true
	})
}

// instrumentFocus returns overlay entries (virtual path -> instrumented source)
// for every file of the focus packages that contains a scheduling point.
func instrumentFocus(focus []string, focusFuncs []string, ov map[string][]byte) (map[string][]byte, []string, error) {
	var pats []string
	whole := map[string]bool{}
	for _, f := range focus {
		pats = append(pats, f)
		whole[f] = true
	}
	// single functions: "(*pkg/path.Type).Method" or "pkg/path.Func"
	only := map[string]map[string]bool{} // package path -> "Type.Method" / "Func"
	for _, ff := range focusFuncs {
		name := strings.TrimPrefix(strings.TrimPrefix(ff, "("), "*")
		name = strings.Replace(name, ")", "", 1)
		slash := strings.LastIndex(name, "/")
		dot := strings.Index(name[slash+1:], ".")
		if dot < 0 {
			continue
		}
		pkg, rest := name[:slash+1+dot], name[slash+1+dot+1:]
		if only[pkg] == nil {
			only[pkg] = map[string]bool{}
			if !whole[pkg] {
				pats = append(pats, pkg)
			}
		}
		only[pkg][rest] = true
	}
	cfg := &packages.Config{Mode: packages.NeedName | packages.NeedFiles | packages.NeedCompiledGoFiles | packages.NeedSyntax | packages.NeedTypes | packages.NeedTypesInfo | packages.NeedImports | packages.NeedDeps,
		Dir: repoDir, Overlay: ov, Env: append(os.Environ(), goEnv()...)}
	pkgs, err := packages.Load(cfg, pats...)
	if err != nil {
		return nil, nil, err
	}
	out := map[string][]byte{}
	var warns []string
	for _, p := range pkgs {
		if len(p.Errors) > 0 {
			return nil, nil, fmt.Errorf("instrument: %s: %v", p.PkgPath, p.Errors[0])
		}
		for i, f := range p.Syntax {
			name := p.CompiledGoFiles[i]
			if strings.HasSuffix(name, "_test.go") {
				continue
			}
			in := &instrumenter{info: p.TypesInfo, fset: p.Fset}
			for _, d := range f.Decls {
				if fd, ok := d.(*ast.FuncDecl); ok && fd.Body != nil {
					if !whole[p.PkgPath] {
						key := fd.Name.Name
						if fd.Recv != nil && len(fd.Recv.List) == 1 {
							t := fd.Recv.List[0].Type
							if st, ok := t.(*ast.StarExpr); ok {
								t = st.X
							}
							if id, ok := t.(*ast.Ident); ok {
								key = id.Name + "." + key
							}
						}
						if !only[p.PkgPath][key] {
							continue
						}
					}
					fd.Body.List = in.list(fd.Body.List)
				}
			}
			warns = append(warns, in.warnings...)
			if !in.changed {
				continue
			}
			// import zzverif under a private name
			imp := &ast.ImportSpec{Name: ast.NewIdent("zzvsched"), Path: &ast.BasicLit{Kind: token.STRING, Value: fmt.Sprintf("%q", repoMod+"/zzverif")}}
			f.Decls = append([]ast.Decl{&ast.GenDecl{Tok: token.IMPORT, Specs: []ast.Spec{imp}}}, f.Decls...)
			var buf bytes.Buffer
			// comments are dropped (positions of inserted nodes would misplace
			// them), except compiler directives
			var keep []*ast.CommentGroup
			for _, g := range f.Comments {
				for _, c := range g.List {
					if strings.HasPrefix(c.Text, "//go:embed") || strings.HasPrefix(c.Text, "//go:build") || strings.HasPrefix(c.Text, "//go:linkname") {
						keep = append(keep, g)
						break
					}
				}
			}
			f.Comments = keep
			if err := format.Node(&buf, p.Fset, f); err != nil {
				return nil, nil, fmt.Errorf("instrument: print %s: %v", name, err)
			}
			out[filepath.Clean(name)] = buf.Bytes()
		}
	}
	return out, warns, nil
}
