package main

import (
	"bufio"
	"context"
	"encoding/json"
	"fmt"
	"os"
	"os/exec"
	"path/filepath"
	"regexp"
	"sort"
	"strings"
	"time"

	"gosym/interp"
)

var maxFindingsPerEntry = 12

type replayFile struct {
	Entry    string         `json:"entry"`
	Vector   []uint64       `json:"vector"`
	Kind     string         `json:"kind"`
	Site     string         `json:"site"`
	Msg      string         `json:"msg"`
	Params   map[string]int `json:"params"`
	Names    []string       `json:"names,omitempty"`
	Trace    string         `json:"trace,omitempty"`
	Stack    []string       `json:"stack,omitempty"`
	Property string         `json:"property"`
	Observed []uint64       `json:"observed,omitempty"`
	Sched    []interp.SchedStep `json:"sched,omitempty"`
}

type known struct {
	kind  string // known | fixed
	prop  string
	entry string
	msg   string
	desc  string
	hit   bool
}

func loadKnown() []*known {
	f, err := os.Open(filepath.Join(verifDir, "known_findings.txt"))
	if err != nil {
		return nil
	}
	defer f.Close()
	var out []*known
	sc := bufio.NewScanner(f)
	re := regexp.MustCompile(`^(known|fixed):\s+property=(\S+)\s+(.*)$`)
	for sc.Scan() {
		l := strings.TrimSpace(sc.Text())
		m := re.FindStringSubmatch(l)
		if m == nil {
			continue
		}
		k := &known{kind: m[1], prop: m[2]}
		rest := m[3]
		if i := strings.Index(rest, "::"); i >= 0 {
			k.desc = strings.TrimSpace(rest[i+2:])
			rest = rest[:i]
		}
		if mm := regexp.MustCompile(`entry=(\S+)`).FindStringSubmatch(rest); mm != nil {
			k.entry = mm[1]
		}
		if mm := regexp.MustCompile(`msg~"([^"]*)"`).FindStringSubmatch(rest); mm != nil {
			k.msg = mm[1]
		}
		out = append(out, k)
	}
	return out
}

func (k *known) matches(prop string, f interp.Finding) bool {
	if k.kind != "known" || k.prop != prop {
		return false
	}
	if k.entry != "" && !strings.HasSuffix(f.Entry, k.entry) {
		return false
	}
	if k.msg != "" && !strings.Contains(f.Msg, k.msg) {
		return false
	}
	return true
}

type replayer struct {
	dir    string
	bin    string
	ovPath string
	err    error
	warnings []string
}

// newReplayer builds one native binary that can run any of the given entries.
func newReplayer(entries []EntrySpec, focus []string, focusFuncs []string) *replayer {
	r := &replayer{}
	dir, err := os.MkdirTemp("", "gosym-replay-")
	if err != nil {
		r.err = err
		return r
	}
	r.dir = dir
	ov, _ := buildOverlay()
	if len(focus) > 0 {
		inst, warns, err := instrumentFocus(focus, focusFuncs, ov)
		if err != nil {
			r.err = err
			return r
		}
		for k, v := range inst {
			ov[k] = v
		}
		r.warnings = warns
	}
	// instrumented files of dependency modules (module cache) cannot be
	// overlaid: copy the module, patch the copy, and build with a -modfile
	// that replaces the module by the copy
	var modfileArgs []string
	modCache := filepath.Join(os.Getenv("HOME"), "go", "pkg", "mod") + string(filepath.Separator)
	if out, err := exec.Command("go", "env", "GOMODCACHE").Output(); err == nil && strings.TrimSpace(string(out)) != "" {
		modCache = strings.TrimSpace(string(out)) + string(filepath.Separator)
	}
	replaced := map[string]string{} // module dir -> copy
	for k, v := range ov {
		if !strings.HasPrefix(k, modCache) {
			continue
		}
		rel := strings.TrimPrefix(k, modCache)
		at := strings.Index(rel, "@")
		if at < 0 {
			continue
		}
		slash := strings.Index(rel[at:], string(filepath.Separator))
		modDir := filepath.Join(modCache, rel[:at+slash])
		cp, ok := replaced[modDir]
		if !ok {
			cp = filepath.Join(dir, fmt.Sprintf("mod%d", len(replaced)))
			if out, err := exec.Command("cp", "-r", "--no-preserve=mode", modDir, cp).CombinedOutput(); err != nil {
				r.err = fmt.Errorf("copy %s: %v %s", modDir, err, out)
				return r
			}
			replaced[modDir] = cp
		}
		os.WriteFile(filepath.Join(cp, rel[at+slash+1:]), v, 0o644)
		delete(ov, k)
	}
	if len(replaced) > 0 {
		gm, _ := os.ReadFile(filepath.Join(repoDir, "go.mod"))
		gs, _ := os.ReadFile(filepath.Join(repoDir, "go.sum"))
		for modDir, cp := range replaced {
			base := strings.TrimPrefix(modDir, modCache) // e.g. github.com/sarchlab/akita/v4@v4.9.0
			at := strings.Index(base, "@")
			gm = append(gm, []byte(fmt.Sprintf("\nreplace %s => %s\n", base[:at], cp))...)
		}
		os.WriteFile(filepath.Join(dir, "go.mod"), gm, 0o644)
		os.WriteFile(filepath.Join(dir, "go.sum"), gs, 0o644)
		modfileArgs = []string{"-modfile=" + filepath.Join(dir, "go.mod")}
	}
	var sb strings.Builder
	sb.WriteString("package main\n\nimport (\n\t\"fmt\"\n\t\"os\"\n\tverif \"" + repoMod + "/zzverif\"\n")
	pk := map[string]string{}
	for _, e := range entries {
		if _, ok := pk[e.Pkg]; !ok {
			pk[e.Pkg] = fmt.Sprintf("p%d", len(pk))
			fmt.Fprintf(&sb, "\t%s \"%s/%s\"\n", pk[e.Pkg], repoMod, e.Pkg)
		}
	}
	sb.WriteString(")\n\nvar entries = map[string]func(){\n")
	seen := map[string]bool{}
	for _, e := range entries {
		k := repoMod + "/" + e.Pkg + "." + e.Fn
		if seen[k] {
			continue
		}
		seen[k] = true
		fmt.Fprintf(&sb, "\t%q: %s.%s,\n", k, pk[e.Pkg], e.Fn)
	}
	sb.WriteString(`}

func main() {
	entry := verif.Load(os.Args[1])
	f, ok := entries[entry]
	if !ok {
		fmt.Println("REPLAY-NOENTRY", entry)
		return
	}
	defer func() {
		if r := recover(); r != nil {
			if len(verif.Failed) > 0 {
				// an assertion had already failed before the run went off the recorded path
				fmt.Println(verif.Report())
				return
			}
			if _, ok := r.(verif.AssumeViolated); ok {
				fmt.Println("REPLAY-ASSUME-VIOLATED")
				return
			}
			fmt.Printf("REPLAY-PANIC %v\n", r)
			return
		}
		fmt.Println(verif.Report())
	}()
	if verif.HasSchedule() {
		verdict, pan := verif.RunScheduled(f)
		if pan != nil {
			panic(pan)
		}
		if verdict == "deadlock" {
			fmt.Println("REPLAY-DEADLOCK every goroutine blocked after the recorded schedule")
			os.Exit(0)
		}
		if verdict != "" {
			fmt.Println("REPLAY-SCHED-MISMATCH " + verdict)
			os.Exit(0)
		}
		return
	}
	// an entry that permutes map orders (verif.MapOrder) is repeated, because
	// Go randomises every map range, until it fails - at most 300 times
	run := func() (r any) {
		defer func() { r = recover() }()
		f()
		return nil
	}
	r := run()
	if verif.MapOrderUsed && verif.Kind() == "witness" {
		// the native map order is random: a passing path of the symbolic run
		// (one particular order) cannot be reproduced on demand
		fmt.Println("REPLAY-WITNESS-UNORDERED")
		os.Exit(0)
	}
	for i := 0; i < 300 && r == nil && len(verif.Failed) == 0 && verif.MapOrderUsed; i++ {
		verif.Load(os.Args[1])
		r = run()
	}
	if r != nil {
		panic(r)
	}
}
`)
	ovj := map[string]map[string]string{"Replace": {}}
	i := 0
	put := func(virt string, content []byte) {
		real := filepath.Join(dir, fmt.Sprintf("f%d.go", i))
		i++
		os.WriteFile(real, content, 0o644)
		ovj["Replace"][virt] = real
	}
	for virt, content := range ov {
		put(virt, content)
	}
	// Go's internal-package rule: the replay main must live below the parent of
	// any ".../internal" package it imports
	mainRel := filepath.Join("zzverif", "replaymain")
	for _, e := range entries {
		if i := strings.Index(e.Pkg+"/", "/internal/"); i >= 0 {
			mainRel = filepath.Join(e.Pkg[:i], "zzreplaymain")
		}
	}
	put(filepath.Join(repoDir, mainRel, "main.go"), []byte(sb.String()))
	b, _ := json.Marshal(ovj)
	r.ovPath = filepath.Join(dir, "overlay.json")
	os.WriteFile(r.ovPath, b, 0o644)
	r.bin = filepath.Join(dir, "replay")
	args := append([]string{"build"}, modfileArgs...)
	args = append(args, "-overlay", r.ovPath, "-o", r.bin, "./"+mainRel)
	cmd := exec.Command("go", args...)
	cmd.Dir = repoDir
	cmd.Env = append(os.Environ(), goEnv()...)
	out, err := cmd.CombinedOutput()
	if err != nil {
		r.err = fmt.Errorf("replay build failed: %v\n%s", err, out)
	}
	return r
}

func (r *replayer) close() {
	if r.dir != "" {
		os.RemoveAll(r.dir)
	}
}

func (r *replayer) run(rf replayFile) (string, error) {
	p := filepath.Join(r.dir, "vec.json")
	b, _ := json.Marshal(rf)
	os.WriteFile(p, b, 0o644)
	ctx, cancel := context.WithTimeout(context.Background(), 120*time.Second)
	defer cancel()
	cmd := exec.CommandContext(ctx, r.bin, p)
	cmd.Dir = repoDir
	out, err := cmd.CombinedOutput()
	s := string(out)
	// last REPLAY- line
	verdict := ""
	for _, l := range strings.Split(s, "\n") {
		if strings.HasPrefix(l, "REPLAY-") {
			verdict = l
		}
	}
	if verdict == "" && strings.Contains(s, "all goroutines are asleep - deadlock!") {
		return "REPLAY-DEADLOCK reported by the Go runtime", nil
	}
	if verdict == "" {
		if err != nil {
			// crashed hard (e.g. fatal error / os.Exit via log.Fatal)
			tail := s
			if len(tail) > 400 {
				tail = tail[len(tail)-400:]
			}
			return "REPLAY-CRASH " + strings.ReplaceAll(tail, "\n", " | "), nil
		}
		return "REPLAY-NOVERDICT", nil
	}
	return verdict, nil
}

func finish(spec Spec, tier string, entries []EntrySpec, results []*entryResult, t0 time.Time, noEvidence bool, ts TierSpec) {
	kn := loadKnown()
	// unique findings
	type uf struct {
		f      interp.Finding
		params map[string]int
		count  int
	}
	uniq := map[string]*uf{}
	var order []string
	for _, r := range results {
		per := 0
		for _, f := range r.Findings {
			msg := f.Msg
			if len(msg) > 100 {
				msg = msg[:100]
			}
			k := f.Entry + "|" + f.Kind + "|" + f.Site + "|" + msg
			if u, ok := uniq[k]; ok {
				u.count++
				continue
			}
			if per >= maxFindingsPerEntry {
				continue
			}
			per++
			uniq[k] = &uf{f: f, params: r.Params, count: 1}
			order = append(order, k)
		}
	}
	nWit := 0
	for _, r := range results {
		nWit += len(r.Witnesses)
	}
	var rp *replayer
	if len(order) > 0 || nWit > 0 {
		rp = newReplayer(entries, spec.Focus, spec.FocusFuncs)
		exitCleanups = append(exitCleanups, rp.close) // finish() ends in os.Exit: defers do not run
	}
	violations := 0
	knownHits := []string{}
	mismatches := []string{}
	witOK, witBad := 0, 0
	var witSample *replayFile
	var inconcl []string
	if rp != nil && rp.err != nil {
		fmt.Fprintln(os.Stderr, rp.err)
		inconcl = append(inconcl, "native replay binary could not be built: findings unconfirmed")
	}
	if rp != nil && rp.err == nil {
		for _, r := range results {
			for _, w := range r.Witnesses {
				rf := replayFile{Entry: w.Entry, Vector: w.Vector, Kind: "witness", Params: r.Params, Property: spec.ID, Observed: w.Observed, Sched: w.Sched}
				v, _ := rp.run(rf)
				want := fmt.Sprintf("REPLAY-PASS observed=%v", w.Observed)
				if len(w.Observed) == 0 {
					want = "REPLAY-PASS observed=[]"
				}
				if v == "REPLAY-WITNESS-UNORDERED" {
					continue
				}
				if v == want {
					witOK++
					if witSample == nil {
						c := rf
						witSample = &c
					}
				} else {
					witBad++
					mismatches = append(mismatches, fmt.Sprintf("WITNESS-MISMATCH %s: native run of a satisfying path vector gave %q, engine predicted %q", w.Entry, v, want))
				}
			}
		}
		for _, k := range order {
			u := uniq[k]
			f := u.f
			rf := replayFile{Entry: f.Entry, Vector: f.Vector, Kind: f.Kind, Site: f.Site, Msg: f.Msg, Params: u.params,
				Names: f.Names, Trace: f.Trace, Stack: f.Stack, Property: spec.ID, Sched: f.Sched}
			v, _ := rp.run(rf)
			confirmed := false
			switch f.Kind {
			case "assert":
				confirmed = strings.HasPrefix(v, "REPLAY-FAIL") // the harness's own native Assert failed
			case "panic":
				confirmed = strings.HasPrefix(v, "REPLAY-PANIC") || strings.HasPrefix(v, "REPLAY-CRASH")
			case "deadlock":
				confirmed = strings.HasPrefix(v, "REPLAY-DEADLOCK")
			}
			if !confirmed {
				mismatches = append(mismatches, fmt.Sprintf("ENCODING-MISMATCH %s %s @%s %q: native replay gave %q", f.Entry, f.Kind, f.Site, f.Msg, v))
				if d := os.Getenv("GOSYM_KEEP_MISMATCH"); d != "" {
					b, _ := json.MarshalIndent(rf, "", " ")
					os.WriteFile(filepath.Join(d, "mismatch-"+sha(b)+".json"), b, 0o644)
				}
				continue
			}
			matched := false
			for _, kk := range kn {
				if kk.matches(spec.ID, f) {
					matched = true
					if !kk.hit {
						kk.hit = true
						line := fmt.Sprintf("KNOWN-FINDING: property=%s %s [%s %s: %s]", spec.ID, kk.desc, shortEntry(f.Entry), f.Kind, f.Msg)
						fmt.Println(line)
						knownHits = append(knownHits, line)
					}
					break
				}
			}
			if matched {
				continue
			}
			violations++
			dir := filepath.Join(verifDir, "replays", spec.ID)
			os.MkdirAll(dir, 0o755)
			b, _ := json.MarshalIndent(rf, "", " ")
			p := filepath.Join(dir, sha(b)+".json")
			os.WriteFile(p, b, 0o644)
			fmt.Printf("VIOLATION property=%s replay=%s\n", spec.ID, p)
			fmt.Printf("  %s %s at %s: %s (native: %s; %d paths)\n", shortEntry(f.Entry), f.Kind, f.Site, f.Msg, v, u.count)
		}
	}
	for _, m := range mismatches {
		fmt.Println(m)
	}

	// aggregate
	var tot interp.Stats
	funcs := map[string]bool{}
	stubs := map[string]bool{}
	solverS := 0.0
	var samples []any
	perEntry := []map[string]any{}
	for _, r := range results {
		addStats(&tot, r.Stats)
		for f := range r.Funcs {
			funcs[f] = true
		}
		for s := range r.Stubs {
			stubs[s] = true
		}
		solverS += r.SolverS
		inconcl = append(inconcl, r.Inconcl...)
		for _, s := range r.Stats.Inconcl {
			inconcl = append(inconcl, shortEntry(r.Entry.Pkg+"."+r.Entry.Fn)+": "+s)
		}
		for _, s := range r.Samples {
			if len(samples) < 6 {
				samples = append(samples, s)
			}
		}
		vac := []string{}
		if len(r.Stats.AssertSites) == 0 {
			vac = append(vac, "no Assert reached")
		}
		perEntry = append(perEntry, map[string]any{
			"entry": r.Entry.Pkg + "." + r.Entry.Fn, "desc": r.Entry.Desc, "paths": r.Stats.Paths, "pruned": r.Stats.PathsPruned,
			"obligations_discharged": r.Stats.Discharged, "concrete_asserts": r.Stats.ConcreteAsserts,
			"assert_sites_reached": len(r.Stats.AssertSites), "violations_raw": r.Stats.Violated,
			"inconclusive": r.Stats.Inconclusive, "params": r.Params, "vacuity": vac, "covers": r.Stats.Covers,
		})
		if len(r.Stats.AssertSites) == 0 {
			inconcl = append(inconcl, "VACUOUS: "+r.Entry.Fn+" reached no Assert")
		}
	}
	if witSample != nil {
		samples = append(samples, map[string]any{"witness_vector_replayed_natively": witSample})
	}
	if len(samples) == 0 {
		samples = append(samples, "no symbolic obligation discharged in this run")
	}
	for _, m := range mismatches {
		inconcl = append(inconcl, m)
	}
	var repoFuncs []string
	for f := range funcs {
		if strings.Contains(f, "sarchlab/mgpusim") && !strings.Contains(f, "zzverif") && !strings.Contains(f, ".Verif") && !strings.Contains(f, "zzv") {
			repoFuncs = append(repoFuncs, strings.ReplaceAll(f, repoMod+"/", ""))
		}
	}
	sort.Strings(repoFuncs)
	var stubList []string
	for s := range stubs {
		stubList = append(stubList, s)
	}
	sort.Strings(stubList)
	// range-over-map sites of the listed packages (current tree) and whether
	// a harness of this run executed the enclosing function
	var mapSites []map[string]any
	if len(spec.MapRange) > 0 {
		sites, err := mapRangeSites(spec.MapRange, nil)
		if err != nil {
			inconcl = append(inconcl, "map-range scan failed: "+err.Error())
		}
		outside := map[string]string{}
		for _, o := range spec.MapRangeOutside {
			if i := strings.Index(o, "="); i > 0 {
				outside[o[:i]] = o[i+1:]
			}
		}
		for _, st := range sites {
			status := "uncovered"
			short := strings.TrimPrefix(st.Func, "*")
			for f := range funcs {
				if strings.Contains(f, st.Pkg) && strings.HasSuffix(strings.ReplaceAll(strings.ReplaceAll(f, "(*", ""), ")", ""), strings.TrimPrefix(st.Pkg, "")+"."+short) {
					status = "covered by a harness of this run"
				}
			}
			why := ""
			if status == "uncovered" {
				if w, ok := outside[st.Func]; ok {
					status, why = "outside", w
				}
			}
			mapSites = append(mapSites, map[string]any{"site": st.Pos, "func": st.Func, "status": status, "why": why})
			if status == "uncovered" {
				inconcl = append(inconcl, fmt.Sprintf("range over a map at %s (%s) is reached by no harness: its order sensitivity is undecided", st.Pos, st.Func))
			}
		}
	}
	wall := time.Since(t0).Seconds()
	level := spec.Level
	if level == "" {
		level = "model_checking"
	}
	distinct := tot.Discharged + tot.Violated
	ev := map[string]any{
		"property_id": spec.ID,
		"tier":        tier,
		"seed":        0,
		"level":       level,
		"wall_s":      wall,
		"violations":  violations,
		"assumptions": append(append([]string{}, spec.Assume...), "SMT solver "+spec.Solver+" is sound; gosym SSA interpreter models Go semantics (cross-checked by native replay of path witnesses)"),
		"coverage": map[string]any{
			"evaluations":                   tot.QSat + tot.QUnsat + tot.QUnknown,
			"distinct_nontrivial":           distinct,
			"rule":                          "evaluations = SMT queries discharged (feasibility + obligations); distinct_nontrivial = symbolic obligations (Assert sites x paths with a non-constant condition) decided by the solver: unsat=discharged, sat=violation candidate. Concretely-true asserts are counted separately.",
			"states":                        tot.Paths,
			"transitions":                   tot.Forks + tot.Paths,
			"traces_validated_against_impl": witOK,
			"witness_mismatches":            witBad,
			"samples":                       samples,
			"obligations":                   tot.Discharged + tot.Violated,
			"discharged":                    tot.Discharged,
			"concrete_asserts":              tot.ConcreteAsserts,
			"paths":                         tot.Paths,
			"paths_pruned":                  tot.PathsPruned,
			"forks":                         tot.Forks,
			"merged_branches":               tot.Merged,
			"ssa_instructions_executed":     tot.Instrs,
			"queries":                       map[string]int{"sat": tot.QSat, "unsat": tot.QUnsat, "unknown": tot.QUnknown},
			"solver_time_s":                 solverS,
			"functions_encoded":             repoFuncs,
			"stubs":                         stubList,
			"bounds":                        spec.Bounds,
			"outside_claim":                 spec.Outside,
			"inconclusive":                  inconcl,
			"known_findings_hit":            knownHits,
			"entries":                       perEntry,
			"exhaustive":                    len(inconcl) == 0,
			"budget_s":                      ts.BudgetS,
			"map_range_sites":               mapSites,
		},
	}
	if !noEvidence {
		os.MkdirAll(filepath.Join(verifDir, "evidence"), 0o755)
		b, _ := json.MarshalIndent(ev, "", " ")
		os.WriteFile(filepath.Join(verifDir, "evidence", spec.ID+".json"), b, 0o644)
	}
	for _, s := range inconcl {
		fmt.Println("INCONCLUSIVE", s)
	}
	fmt.Printf("%s tier=%s paths=%d obligations=%d discharged=%d known=%d violations=%d inconclusive=%d witnesses_ok=%d queries=%d solver=%.1fs wall=%.1fs\n",
		spec.ID, tier, tot.Paths, tot.Discharged+tot.Violated, tot.Discharged, len(knownHits), violations, len(inconcl), witOK,
		tot.QSat+tot.QUnsat+tot.QUnknown, solverS, wall)
	for _, c := range exitCleanups {
		c()
	}
	if violations > 0 {
		os.Exit(1)
	}
	os.Exit(0)
}

// exitCleanups run before finish() exits the process (deferred functions of
// the caller do not run across os.Exit).
var exitCleanups []func()

func shortEntry(e string) string { return strings.TrimPrefix(e, repoMod+"/") }
