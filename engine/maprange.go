package main

// gosym maprange: lists every range-over-map statement of the given packages
// (current tree), with the enclosing function. Used by the C05 check to state
// which sites its harnesses reach.

import (
	"fmt"
	"go/ast"
	"go/types"
	"os"
	"sort"
	"strings"

	"golang.org/x/tools/go/packages"
)

type mapRangeSite struct {
	Pos, Func, Pkg string
}

func mapRangeSites(pats []string, ov map[string][]byte) ([]mapRangeSite, error) {
	cfg := &packages.Config{Mode: packages.NeedName | packages.NeedFiles | packages.NeedCompiledGoFiles | packages.NeedSyntax | packages.NeedTypes | packages.NeedTypesInfo | packages.NeedImports | packages.NeedDeps,
		Dir: repoDir, Overlay: ov, Env: append(os.Environ(), goEnv()...)}
	pkgs, err := packages.Load(cfg, pats...)
	if err != nil {
		return nil, err
	}
	var out []mapRangeSite
	for _, p := range pkgs {
		for i, f := range p.Syntax {
			name := p.CompiledGoFiles[i]
			if strings.HasSuffix(name, "_test.go") || strings.Contains(name, "zz_verif") {
				continue
			}
			for _, d := range f.Decls {
				fd, ok := d.(*ast.FuncDecl)
				if !ok || fd.Body == nil {
					continue
				}
				fn := fd.Name.Name
				if fd.Recv != nil && len(fd.Recv.List) == 1 {
					fn = types.ExprString(fd.Recv.List[0].Type) + "." + fn
				}
				ast.Inspect(fd.Body, func(n ast.Node) bool {
					rs, ok := n.(*ast.RangeStmt)
					if !ok {
						return true
					}
					if t := p.TypesInfo.TypeOf(rs.X); t != nil {
						if _, ok := t.Underlying().(*types.Map); ok {
							pos := p.Fset.Position(rs.Pos())
							out = append(out, mapRangeSite{Pos: fmt.Sprintf("%s:%d", strings.TrimPrefix(pos.Filename, repoDir+"/"), pos.Line), Func: fn, Pkg: p.PkgPath})
						}
					}
					return true
				})
			}
		}
	}
	sort.Slice(out, func(i, j int) bool { return out[i].Pos < out[j].Pos })
	return out, nil
}

func mapRangeMain(args []string) {
	if len(args) == 0 {
		args = []string{"./amd/...", "./nvidia/..."}
	}
	sites, err := mapRangeSites(args, nil)
	if err != nil {
		fatal(err)
	}
	for _, s := range sites {
		fmt.Printf("%s\t%s\t%s\n", s.Pos, s.Pkg, s.Func)
	}
}
