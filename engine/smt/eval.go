package smt

// Eval evaluates a boolean / bit-vector term under an assignment of its
// variables (used by the self-test of the simplifier).
func Eval(t *Term, env map[string]uint64) uint64 {
	a := func(i int) uint64 { return Eval(t.Args[i], env) }
	w := t.S.W
	b2u := func(b bool) uint64 {
		if b {
			return 1
		}
		return 0
	}
	switch t.Op {
	case OConst:
		return t.C
	case OVar:
		if t.S.K == KBool {
			return env[t.Name] & 1
		}
		return env[t.Name] & mask(w)
	case ONot:
		return 1 - a(0)
	case OAnd:
		return a(0) & a(1)
	case OOr:
		return a(0) | a(1)
	case OEq:
		return b2u(a(0) == a(1))
	case OIte:
		if a(0) != 0 {
			return a(1)
		}
		return a(2)
	case OBvNot:
		return ^a(0) & mask(w)
	case OBvNeg:
		return -a(0) & mask(w)
	case OConcat:
		return (a(0)<<uint(t.Args[1].S.W) | a(1)) & mask(w)
	case OExtract:
		return (a(0) >> uint(t.P2)) & mask(w)
	case OSext:
		return uint64(sext64(a(0), t.Args[0].S.W)) & mask(w)
	case OBvUlt:
		return b2u(a(0) < a(1))
	case OBvUle:
		return b2u(a(0) <= a(1))
	case OBvSlt:
		return b2u(sext64(a(0), t.Args[0].S.W) < sext64(a(1), t.Args[0].S.W))
	case OBvSle:
		return b2u(sext64(a(0), t.Args[0].S.W) <= sext64(a(1), t.Args[0].S.W))
	}
	// binary bit-vector operators: reuse the constant folder
	c := NewCtx()
	x, y := c.BVC(a(0), t.Args[0].S.W), c.BVC(a(1), t.Args[1].S.W)
	return c.bvbin(t.Op, x, y).C
}

// String renders a term for debugging.
func (t *Term) String() string {
	switch t.Op {
	case OConst:
		return constText(t)
	case OVar:
		return t.Name
	case OExtract:
		return "(extract " + itoa(t.P1) + " " + itoa(t.P2) + " " + t.Args[0].String() + ")"
	}
	n := opName[t.Op]
	if n == "" {
		n = "op" + itoa(int(t.Op))
	}
	s := "(" + n
	for _, a := range t.Args {
		s += " " + a.String()
	}
	return s + ")"
}

func itoa(i int) string {
	if i == 0 {
		return "0"
	}
	neg := i < 0
	if neg {
		i = -i
	}
	var b []byte
	for i > 0 {
		b = append([]byte{byte('0' + i%10)}, b...)
		i /= 10
	}
	if neg {
		return "-" + string(b)
	}
	return string(b)
}
