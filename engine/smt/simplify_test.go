package smt

import (
	"math/rand"
	"testing"
)

// Random expressions over two 8-bit variables: the simplified symbolic term
// must evaluate like the same expression built from constants.
func TestSimplifierAgainstEval(t *testing.T) {
	rng := rand.New(rand.NewSource(1))
	type build func(c *Ctx, x, y *Term) *Term
	var gen func(d int) build
	gen = func(d int) build {
		if d == 0 || rng.Intn(5) == 0 {
			switch rng.Intn(3) {
			case 0:
				return func(c *Ctx, x, y *Term) *Term { return x }
			case 1:
				return func(c *Ctx, x, y *Term) *Term { return y }
			}
			k := uint64(rng.Intn(256))
			if rng.Intn(2) == 0 {
				k = []uint64{0, 1, 2, 4, 8, 0x0f, 0xf0, 0xff, 0x80, 3, 7}[rng.Intn(11)]
			}
			return func(c *Ctx, x, y *Term) *Term { return c.BVC(k, 8) }
		}
		l, r := gen(d-1), gen(d-1)
		switch op := rng.Intn(16); op {
		case 0:
			return func(c *Ctx, x, y *Term) *Term { return c.BvAnd(l(c, x, y), r(c, x, y)) }
		case 1:
			return func(c *Ctx, x, y *Term) *Term { return c.BvOr(l(c, x, y), r(c, x, y)) }
		case 2:
			return func(c *Ctx, x, y *Term) *Term { return c.BvXor(l(c, x, y), r(c, x, y)) }
		case 3:
			return func(c *Ctx, x, y *Term) *Term { return c.BvAdd(l(c, x, y), r(c, x, y)) }
		case 4:
			return func(c *Ctx, x, y *Term) *Term { return c.BvSub(l(c, x, y), r(c, x, y)) }
		case 5:
			return func(c *Ctx, x, y *Term) *Term { return c.BvMul(l(c, x, y), r(c, x, y)) }
		case 6:
			return func(c *Ctx, x, y *Term) *Term { return c.BvShl(l(c, x, y), r(c, x, y)) }
		case 7:
			return func(c *Ctx, x, y *Term) *Term { return c.BvLshr(l(c, x, y), r(c, x, y)) }
		case 8:
			return func(c *Ctx, x, y *Term) *Term { return c.BvNot(l(c, x, y)) }
		case 9:
			return func(c *Ctx, x, y *Term) *Term { return c.BvUDiv(l(c, x, y), r(c, x, y)) }
		case 10:
			return func(c *Ctx, x, y *Term) *Term { return c.BvURem(l(c, x, y), r(c, x, y)) }
		case 11:
			hi := rng.Intn(8)
			lo := rng.Intn(hi + 1)
			return func(c *Ctx, x, y *Term) *Term { return c.Zext(c.Extract(l(c, x, y), hi, lo), 8) }
		case 12:
			return func(c *Ctx, x, y *Term) *Term {
				return c.Concat(c.Extract(l(c, x, y), 3, 0), c.Extract(r(c, x, y), 7, 4))
			}
		case 13:
			return func(c *Ctx, x, y *Term) *Term {
				return c.Ite(c.BvUlt(l(c, x, y), r(c, x, y)), l(c, x, y), r(c, x, y))
			}
		case 14:
			return func(c *Ctx, x, y *Term) *Term {
				return c.Ite(c.Eq(l(c, x, y), r(c, x, y)), c.BVC(1, 8), c.BVC(0, 8))
			}
		default:
			return func(c *Ctx, x, y *Term) *Term { return c.Sext(c.Extract(l(c, x, y), 3, 0), 8) }
		}
	}
	for iter := 0; iter < 20000; iter++ {
		b := gen(3)
		c := NewCtx()
		sym := b(c, c.Var("x", BV(8)), c.Var("y", BV(8)))
		for k := 0; k < 40; k++ {
			xv, yv := uint64(rng.Intn(256)), uint64(rng.Intn(256))
			if k < 4 {
				xv, yv = []uint64{0, 255, 128, 1}[k], []uint64{255, 0, 1, 128}[k]
			}
			want := b(c, c.BVC(xv, 8), c.BVC(yv, 8))
			if !want.IsConst() {
				t.Fatalf("constant build not folded")
			}
			got := Eval(sym, map[string]uint64{"x": xv, "y": yv})
			if got != want.C {
				t.Fatalf("iter %d: x=%d y=%d simplified term evaluates to %d, constants give %d\n%s", iter, xv, yv, got, want.C, sym)
			}
		}
	}
}
