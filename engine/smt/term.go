// Package smt: hash-consed term DAG over booleans, bit-vectors (<=64 bits),
// IEEE floats and byte arrays, with constant folding, and an SMT-LIB2 printer.
package smt

import (
	"fmt"
	"math"
	"math/bits"
	"strings"
)

type SortKind uint8

const (
	KBool SortKind = iota
	KBV
	KFP32
	KFP64
	KArr // (Array (_ BitVec 64) (_ BitVec 8))
	KInt // mathematical integer (Int-mode)
)

type Sort struct {
	K SortKind
	W int // bit-vector width
}

func (s Sort) String() string {
	switch s.K {
	case KBool:
		return "Bool"
	case KBV:
		return fmt.Sprintf("(_ BitVec %d)", s.W)
	case KFP32:
		return "(_ FloatingPoint 8 24)"
	case KFP64:
		return "(_ FloatingPoint 11 53)"
	case KArr:
		return "(Array (_ BitVec 64) (_ BitVec 8))"
	case KInt:
		return "Int"
	}
	return "?"
}

var Bool = Sort{K: KBool}
var FP32 = Sort{K: KFP32}
var FP64 = Sort{K: KFP64}
var Arr = Sort{K: KArr}
var Int = Sort{K: KInt}

func BV(w int) Sort { return Sort{K: KBV, W: w} }

type Op uint8

const (
	OConst Op = iota // bool / bv / fp constant (C holds bits)
	OVar
	ONot
	OAnd
	OOr
	OXorB
	OEq
	OIte
	OBvNot
	OBvNeg
	OBvAnd
	OBvOr
	OBvXor
	OBvAdd
	OBvSub
	OBvMul
	OBvUDiv
	OBvURem
	OBvSDiv
	OBvSRem
	OBvShl
	OBvLshr
	OBvAshr
	OBvUlt
	OBvUle
	OBvSlt
	OBvSle
	OConcat
	OExtract // P1=hi P2=lo
	OZext    // to width W
	OSext
	OSelect
	OStore
	OConstArr // array filled with 0
	// floating point
	OFpAdd
	OFpSub
	OFpMul
	OFpDiv
	OFpFma
	OFpNeg
	OFpAbs
	OFpSqrt
	OFpRti // round to integral, P1 = rounding mode (0 RNE,1 RTZ,2 RTP,3 RTN, 4 RNA)
	OFpMin
	OFpMax
	OFpEq
	OFpLt
	OFpLe
	OFpIsNaN
	OFpIsInf
	OFpIsNeg
	OFpIsZero
	OFpIsSubnormal
	OFpToFp     // fp -> fp (other precision) RNE
	OFpFromBits // bv -> fp reinterpret
	OFpToBits   // fp -> bv (via fresh var + constraint is the standard trick; we print as custom fn)
	OFpFromSBV  // signed bv -> fp RNE
	OFpFromUBV  // unsigned bv -> fp RNE
	OFpToSBV    // fp -> signed bv RTZ, W
	OFpToUBV    // fp -> unsigned bv RTZ, W
	OUF         // uninterpreted function Name(args...)
)

type Term struct {
	Op     Op
	S      Sort
	Args   []*Term
	C      uint64 // constant bits
	P1, P2 int
	Name   string
	ID     int
	KZ, KO uint64 // known-zero / known-one bit masks (bit-vectors only)
	Hard   bool   // contains a multiplier / divider / float operation (one-shot solving is used)
}

func (t *Term) IsConst() bool { return t.Op == OConst }

type Ctx struct {
	// FloatUF: floating-point values are represented by their bit patterns and
	// every arithmetic operation is an uninterpreted function (used where only
	// data flow matters, e.g. lane independence); sign/abs/class tests stay exact.
	FloatUF bool
	tab   map[string]*Term
	Terms []*Term
	True  *Term
	False *Term
}

func NewCtx() *Ctx {
	c := &Ctx{tab: map[string]*Term{}}
	c.True = c.mk(&Term{Op: OConst, S: Bool, C: 1})
	c.False = c.mk(&Term{Op: OConst, S: Bool, C: 0})
	return c
}

// knownBits computes the known-zero/known-one masks of a bit-vector term.
func knownBits(t *Term) (kz, ko uint64) {
	w := t.S.W
	m := mask(w)
	a := func(i int) *Term { return t.Args[i] }
	switch t.Op {
	case OConst:
		return ^t.C & m, t.C & m
	case OBvAnd:
		return (a(0).KZ | a(1).KZ) & m, a(0).KO & a(1).KO
	case OBvOr:
		return a(0).KZ & a(1).KZ, (a(0).KO | a(1).KO) & m
	case OBvXor:
		k := (a(0).KZ | a(0).KO) & (a(1).KZ | a(1).KO)
		v := (a(0).KO ^ a(1).KO) & k
		return k &^ v, v
	case OBvNot:
		return a(0).KO, a(0).KZ
	case OConcat:
		lw := uint(a(1).S.W)
		return (a(0).KZ<<lw | a(1).KZ) & m, (a(0).KO<<lw | a(1).KO) & m
	case OExtract:
		return (a(0).KZ >> uint(t.P2)) & m, (a(0).KO >> uint(t.P2)) & m
	case OIte:
		return a(1).KZ & a(2).KZ, a(1).KO & a(2).KO
	case OSext:
		iw := a(0).S.W
		kz, ko = a(0).KZ, a(0).KO
		hi := m &^ mask(iw)
		if kz>>(uint(iw)-1)&1 == 1 {
			kz |= hi
		} else if ko>>(uint(iw)-1)&1 == 1 {
			ko |= hi
		}
		return kz, ko
	case OBvAdd, OBvSub:
		// trailing bits that are known zero in both operands stay zero
		tz := bits.TrailingZeros64(^(a(0).KZ & a(1).KZ))
		if tz > w {
			tz = w
		}
		kz := mask(tz)
		ko := uint64(0)
		if t.Op == OBvAdd {
			// low bits known in both operands: the low bits of the sum are known
			ka, kb := a(0).KZ|a(0).KO, a(1).KZ|a(1).KO
			k := bits.TrailingZeros64(^(ka & kb))
			if k > w {
				k = w
			}
			if k > 0 {
				sum := (a(0).KO + a(1).KO) & mask(k)
				ko |= sum
				kz |= ^sum & mask(k)
			}
		}
		if t.Op == OBvAdd {
			// leading known zeros: x < 2^(w-la), y < 2^(w-lb) => x+y < 2^(w-min(la,lb)+1), no wrap
			lead := func(z uint64) int { return bits.LeadingZeros64((^z&mask(w))<<uint(64-w) | (uint64(1)<<uint(64-w) - 1)) }
			la, lb := lead(a(0).KZ), lead(a(1).KZ)
			if lb < la {
				la = lb
			}
			if la > w {
				la = w
			}
			if la >= 2 {
				kz |= mask(w) &^ mask(w-(la-1))
			}
		}
		return kz, ko
	case OBvMul:
		tz := bits.TrailingZeros64(^a(0).KZ) + bits.TrailingZeros64(^a(1).KZ)
		if tz > w {
			tz = w
		}
		return mask(tz), 0
	case OBvShl:
		tz := bits.TrailingZeros64(^a(0).KZ)
		if tz > w {
			tz = w
		}
		return mask(tz), 0
	case OBvLshr, OBvUDiv, OBvURem:
		if t.Op == OBvUDiv && a(1).KO == 0 {
			return 0, 0 // x/0 is all ones in SMT-LIB
		}
		// leading known zeros of the dividend / shifted value are preserved
		lz := bits.LeadingZeros64(^(a(0).KZ | ^m)) - (64 - w)
		if lz <= 0 {
			return 0, 0
		}
		return m &^ mask(w-lz), 0
	}
	return 0, 0
}

func (c *Ctx) mk(t *Term) *Term {
	if t.S.K == KBV && t.S.W > 0 && t.Op != OConst {
		t.KZ, t.KO = knownBits(t)
		if (t.KZ|t.KO)&mask(t.S.W) == mask(t.S.W) {
			return c.BVC(t.KO, t.S.W)
		}
	} else if t.Op == OConst && t.S.K == KBV {
		t.KZ, t.KO = ^t.C&mask(t.S.W), t.C&mask(t.S.W)
	}
	switch t.Op {
	case OBvMul, OBvUDiv, OBvURem, OBvSDiv, OBvSRem, OFpAdd, OFpSub, OFpMul, OFpDiv, OFpFma, OFpSqrt, OFpToFp, OFpFromSBV, OFpFromUBV, OFpToSBV, OFpToUBV, OFpRti:
		t.Hard = true
	}
	for _, a := range t.Args {
		if a.Hard {
			t.Hard = true
		}
	}
	var sb strings.Builder
	fmt.Fprintf(&sb, "%d|%d|%d|%x|%d|%d|%s", t.Op, t.S.K, t.S.W, t.C, t.P1, t.P2, t.Name)
	for _, a := range t.Args {
		fmt.Fprintf(&sb, "|%d", a.ID)
	}
	k := sb.String()
	if e, ok := c.tab[k]; ok {
		return e
	}
	t.ID = len(c.Terms)
	c.Terms = append(c.Terms, t)
	c.tab[k] = t
	return t
}

func mask(w int) uint64 {
	if w >= 64 {
		return ^uint64(0)
	}
	return (uint64(1) << uint(w)) - 1
}

func sext64(v uint64, w int) int64 {
	if w >= 64 {
		return int64(v)
	}
	sh := uint(64 - w)
	return int64(v<<sh) >> sh
}

func (c *Ctx) BoolC(b bool) *Term {
	if b {
		return c.True
	}
	return c.False
}

func (c *Ctx) BVC(v uint64, w int) *Term {
	return c.mk(&Term{Op: OConst, S: BV(w), C: v & mask(w)})
}

func (c *Ctx) F32C(f float32) *Term {
	if c.FloatUF {
		return c.BVC(uint64(math.Float32bits(f)), 32)
	}
	return c.mk(&Term{Op: OConst, S: FP32, C: uint64(math.Float32bits(f))})
}
func (c *Ctx) F64C(f float64) *Term {
	if c.FloatUF {
		return c.BVC(math.Float64bits(f), 64)
	}
	return c.mk(&Term{Op: OConst, S: FP64, C: math.Float64bits(f)})
}

func (c *Ctx) Var(name string, s Sort) *Term {
	return c.mk(&Term{Op: OVar, S: s, Name: name})
}

func (c *Ctx) ConstArr() *Term { return c.mk(&Term{Op: OConstArr, S: Arr}) }

// ---------- boolean ----------

func (c *Ctx) Not(a *Term) *Term {
	if a.IsConst() {
		return c.BoolC(a.C == 0)
	}
	if a.Op == ONot {
		return a.Args[0]
	}
	return c.mk(&Term{Op: ONot, S: Bool, Args: []*Term{a}})
}

func (c *Ctx) And(a, b *Term) *Term {
	if a.IsConst() {
		if a.C == 0 {
			return c.False
		}
		return b
	}
	if b.IsConst() {
		if b.C == 0 {
			return c.False
		}
		return a
	}
	if a == b {
		return a
	}
	return c.mk(&Term{Op: OAnd, S: Bool, Args: []*Term{a, b}})
}

func (c *Ctx) Or(a, b *Term) *Term {
	if a.IsConst() {
		if a.C != 0 {
			return c.True
		}
		return b
	}
	if b.IsConst() {
		if b.C != 0 {
			return c.True
		}
		return a
	}
	if a == b {
		return a
	}
	return c.mk(&Term{Op: OOr, S: Bool, Args: []*Term{a, b}})
}

func (c *Ctx) Eq(a, b *Term) *Term {
	if a.S != b.S {
		panic(fmt.Sprintf("smt.Eq sort mismatch %v %v", a.S, b.S))
	}
	if a == b && a.S.K != KFP32 && a.S.K != KFP64 {
		return c.True
	}
	if a.IsConst() && b.IsConst() && a.S.K != KFP32 && a.S.K != KFP64 {
		return c.BoolC(a.C == b.C)
	}
	if a.S.K == KBV && (a.KO&b.KZ|a.KZ&b.KO) != 0 {
		return c.False
	}
	if a.S.K == KBool {
		if a.IsConst() {
			if a.C != 0 {
				return b
			}
			return c.Not(b)
		}
		if b.IsConst() {
			if b.C != 0 {
				return a
			}
			return c.Not(a)
		}
	}
	if a.ID > b.ID {
		a, b = b, a
	}
	return c.mk(&Term{Op: OEq, S: Bool, Args: []*Term{a, b}})
}

func (c *Ctx) Ite(cond, a, b *Term) *Term {
	if a.S != b.S {
		panic(fmt.Sprintf("smt.Ite sort mismatch %v %v", a.S, b.S))
	}
	if cond.IsConst() {
		if cond.C != 0 {
			return a
		}
		return b
	}
	if a == b {
		return a
	}
	if a.S.K == KBool {
		if a.IsConst() && b.IsConst() {
			if a.C != 0 {
				return cond
			}
			return c.Not(cond)
		}
	}
	return c.mk(&Term{Op: OIte, S: a.S, Args: []*Term{cond, a, b}})
}

// ---------- bit-vectors ----------

func (c *Ctx) bvbin(op Op, a, b *Term) *Term {
	if a.S != b.S || a.S.K != KBV {
		panic(fmt.Sprintf("smt bvbin sort mismatch op=%d %v %v", op, a.S, b.S))
	}
	w := a.S.W
	if a.IsConst() && b.IsConst() {
		x, y := a.C, b.C
		var r uint64
		switch op {
		case OBvAnd:
			r = x & y
		case OBvOr:
			r = x | y
		case OBvXor:
			r = x ^ y
		case OBvAdd:
			r = x + y
		case OBvSub:
			r = x - y
		case OBvMul:
			r = x * y
		case OBvUDiv:
			if y == 0 {
				r = mask(w)
			} else {
				r = x / y
			}
		case OBvURem:
			if y == 0 {
				r = x
			} else {
				r = x % y
			}
		case OBvSDiv:
			sx, sy := sext64(x, w), sext64(y, w)
			if sy == 0 {
				if sx >= 0 {
					r = mask(w)
				} else {
					r = 1
				}
			} else if sy == -1 {
				r = uint64(-sx)
			} else {
				r = uint64(sx / sy)
			}
		case OBvSRem:
			sx, sy := sext64(x, w), sext64(y, w)
			if sy == 0 {
				r = x
			} else if sy == -1 {
				r = 0
			} else {
				r = uint64(sx % sy)
			}
		case OBvShl:
			if y >= uint64(w) {
				r = 0
			} else {
				r = x << y
			}
		case OBvLshr:
			if y >= uint64(w) {
				r = 0
			} else {
				r = x >> y
			}
		case OBvAshr:
			sx := sext64(x, w)
			if y >= uint64(w) {
				if sx < 0 {
					r = mask(w)
				} else {
					r = 0
				}
			} else {
				r = uint64(sx >> y)
			}
		}
		return c.BVC(r, w)
	}
	// identities
	switch op {
	case OBvAnd:
		if a == b {
			return a
		}
		if b.IsConst() && (b.C&^a.KZ)&mask(w) == 0 { // mask selects only known-zero bits
			return c.BVC(0, w)
		}
		if a.IsConst() && (a.C&^b.KZ)&mask(w) == 0 {
			return c.BVC(0, w)
		}
		if a.IsConst() {
			a, b = b, a
		}
		if b.IsConst() {
			if b.C == 0 {
				return b
			}
			if b.C == mask(w) {
				return a
			}
		}
	case OBvOr:
		if a == b {
			return a
		}
		if a.IsConst() {
			a, b = b, a
		}
		if b.IsConst() {
			if b.C == 0 {
				return a
			}
			if b.C == mask(w) {
				return b
			}
		}
		// disjoint contiguous supports (byte reassembly: lo | hi<<k):
		// or(lo, hi) = concat(extract(hi, w-1, k), extract(lo, k-1, 0))
		if !a.IsConst() && !b.IsConst() {
			for _, p := range [2][2]*Term{{a, b}, {b, a}} {
				lo, hi := p[0], p[1]
				// k = number of low bits of hi known zero
				k := bits.TrailingZeros64(^hi.KZ)
				if k > w {
					k = w
				}
				if k > 0 && k < w && (lo.KZ|mask(k))&mask(w) == mask(w) {
					return c.Concat(c.Extract(hi, w-1, k), c.Extract(lo, k-1, 0))
				}
			}
		}
	case OBvXor:
		if a == b {
			return c.BVC(0, w)
		}
		if a.IsConst() {
			a, b = b, a
		}
		if b.IsConst() && b.C == 0 {
			return a
		}
	case OBvAdd:
		if a.IsConst() {
			a, b = b, a
		}
		if b.IsConst() && b.C == 0 {
			return a
		}
		// (x + c1) + c2 -> x + (c1+c2)
		if b.IsConst() && a.Op == OBvAdd && len(a.Args) == 2 && a.Args[1].IsConst() {
			return c.bvbin(OBvAdd, a.Args[0], c.BVC((a.Args[1].C+b.C)&mask(w), w))
		}
	case OBvSub:
		if b.IsConst() && b.C == 0 {
			return a
		}
		if a == b {
			return c.BVC(0, w)
		}
		if b.IsConst() { // x - c -> x + (-c)
			return c.bvbin(OBvAdd, a, c.BVC((-b.C)&mask(w), w))
		}
	case OBvMul:
		if a.IsConst() {
			a, b = b, a
		}
		if b.IsConst() {
			if b.C == 0 {
				return b
			}
			if b.C == 1 {
				return a
			}
			if b.C&(b.C-1) == 0 { // power of two: shift
				return c.bvbin(OBvShl, a, c.BVC(uint64(bits.TrailingZeros64(b.C)), w))
			}
		}
	case OBvUDiv:
		if b.IsConst() && b.C == 1 {
			return a
		}
		if b.IsConst() && b.C != 0 && b.C&(b.C-1) == 0 {
			return c.bvbin(OBvLshr, a, c.BVC(uint64(bits.TrailingZeros64(b.C)), w))
		}
	case OBvURem:
		if b.IsConst() && b.C != 0 && b.C&(b.C-1) == 0 {
			return c.bvbin(OBvAnd, a, c.BVC(b.C-1, w))
		}
	case OBvSDiv, OBvSRem:
		// both operands known non-negative: same as the unsigned operation
		// (also for a zero divisor: sdiv x 0 = -1 = udiv x 0, srem x 0 = x)
		sb := uint64(1) << uint(w-1)
		if a.KZ&sb != 0 && b.KZ&sb != 0 {
			if op == OBvSDiv {
				return c.bvbin(OBvUDiv, a, b)
			}
			return c.bvbin(OBvURem, a, b)
		}
	case OBvShl, OBvLshr:
		if b.IsConst() {
			if b.C == 0 {
				return a
			}
			if b.C >= uint64(w) {
				return c.BVC(0, w)
			}
			// shift by constant -> extract/concat (helps solver & folding)
			k := int(b.C)
			if op == OBvShl {
				return c.Concat(c.Extract(a, w-1-k, 0), c.BVC(0, k))
			}
			return c.Concat(c.BVC(0, k), c.Extract(a, w-1, k))
		}
		if a.IsConst() && a.C == 0 {
			return a
		}
	case OBvAshr:
		if b.IsConst() && b.C == 0 {
			return a
		}
	}
	return c.mk(&Term{Op: op, S: a.S, Args: []*Term{a, b}})
}

func (c *Ctx) BvAnd(a, b *Term) *Term  { return c.bvbin(OBvAnd, a, b) }
func (c *Ctx) BvOr(a, b *Term) *Term   { return c.bvbin(OBvOr, a, b) }
func (c *Ctx) BvXor(a, b *Term) *Term  { return c.bvbin(OBvXor, a, b) }
func (c *Ctx) BvAdd(a, b *Term) *Term  { return c.bvbin(OBvAdd, a, b) }
func (c *Ctx) BvSub(a, b *Term) *Term  { return c.bvbin(OBvSub, a, b) }
func (c *Ctx) BvMul(a, b *Term) *Term  { return c.bvbin(OBvMul, a, b) }
func (c *Ctx) BvUDiv(a, b *Term) *Term { return c.bvbin(OBvUDiv, a, b) }
func (c *Ctx) BvURem(a, b *Term) *Term { return c.bvbin(OBvURem, a, b) }
func (c *Ctx) BvSDiv(a, b *Term) *Term { return c.bvbin(OBvSDiv, a, b) }
func (c *Ctx) BvSRem(a, b *Term) *Term { return c.bvbin(OBvSRem, a, b) }
func (c *Ctx) BvShl(a, b *Term) *Term  { return c.bvbin(OBvShl, a, b) }
func (c *Ctx) BvLshr(a, b *Term) *Term { return c.bvbin(OBvLshr, a, b) }
func (c *Ctx) BvAshr(a, b *Term) *Term { return c.bvbin(OBvAshr, a, b) }

func (c *Ctx) BvNot(a *Term) *Term {
	if a.IsConst() {
		return c.BVC(^a.C, a.S.W)
	}
	if a.Op == OBvNot {
		return a.Args[0]
	}
	return c.mk(&Term{Op: OBvNot, S: a.S, Args: []*Term{a}})
}

func (c *Ctx) BvNeg(a *Term) *Term {
	if a.IsConst() {
		return c.BVC(-a.C, a.S.W)
	}
	return c.mk(&Term{Op: OBvNeg, S: a.S, Args: []*Term{a}})
}

func (c *Ctx) bvcmp(op Op, a, b *Term) *Term {
	if a.S != b.S || a.S.K != KBV {
		panic(fmt.Sprintf("smt bvcmp sort mismatch %v %v", a.S, b.S))
	}
	w := a.S.W
	if a.IsConst() && b.IsConst() {
		switch op {
		case OBvUlt:
			return c.BoolC(a.C < b.C)
		case OBvUle:
			return c.BoolC(a.C <= b.C)
		case OBvSlt:
			return c.BoolC(sext64(a.C, w) < sext64(b.C, w))
		case OBvSle:
			return c.BoolC(sext64(a.C, w) <= sext64(b.C, w))
		}
	}
	if a == b {
		return c.BoolC(op == OBvUle || op == OBvSle)
	}
	if op == OBvUlt || op == OBvUle {
		amin, amax := a.KO, mask(w)&^a.KZ
		bmin, bmax := b.KO, mask(w)&^b.KZ
		if op == OBvUlt {
			if amax < bmin {
				return c.True
			}
			if amin >= bmax {
				return c.False
			}
		} else {
			if amax <= bmin {
				return c.True
			}
			if amin > bmax {
				return c.False
			}
		}
	}
	if op == OBvUlt && b.IsConst() && b.C == 0 {
		return c.False
	}
	if op == OBvUle && a.IsConst() && a.C == 0 {
		return c.True
	}
	return c.mk(&Term{Op: op, S: Bool, Args: []*Term{a, b}})
}

func (c *Ctx) BvUlt(a, b *Term) *Term { return c.bvcmp(OBvUlt, a, b) }
func (c *Ctx) BvUle(a, b *Term) *Term { return c.bvcmp(OBvUle, a, b) }
func (c *Ctx) BvSlt(a, b *Term) *Term { return c.bvcmp(OBvSlt, a, b) }
func (c *Ctx) BvSle(a, b *Term) *Term { return c.bvcmp(OBvSle, a, b) }

func (c *Ctx) Concat(hi, lo *Term) *Term {
	w := hi.S.W + lo.S.W
	if w > 64 {
		panic("smt.Concat > 64 bits")
	}
	if hi.S.W == 0 {
		return lo
	}
	if lo.S.W == 0 {
		return hi
	}
	if hi.IsConst() && lo.IsConst() {
		return c.BVC(hi.C<<uint(lo.S.W)|lo.C, w)
	}
	// concat(extract(x,h,m+1), extract(x,m,l)) = extract(x,h,l)
	if hi.Op == OExtract && lo.Op == OExtract && hi.Args[0] == lo.Args[0] && hi.P2 == lo.P1+1 {
		return c.Extract(hi.Args[0], hi.P1, lo.P2)
	}
	// concat(a, concat(b, c)) with a,b mergeable
	if lo.Op == OConcat {
		m := c.Concat(hi, lo.Args[0])
		if m.Op != OConcat || (hi.IsConst() && lo.Args[0].IsConst()) {
			return c.Concat(m, lo.Args[1])
		}
	}
	return c.mk(&Term{Op: OConcat, S: BV(w), Args: []*Term{hi, lo}})
}

func (c *Ctx) Extract(a *Term, hi, lo int) *Term {
	if a.S.K != KBV || hi < lo-1 || hi >= a.S.W || lo < 0 {
		panic(fmt.Sprintf("smt.Extract bad range %d %d of %v", hi, lo, a.S))
	}
	w := hi - lo + 1
	if w == 0 {
		return c.mk(&Term{Op: OConst, S: BV(0)})
	}
	if w == a.S.W {
		return a
	}
	if a.IsConst() {
		return c.BVC(a.C>>uint(lo), w)
	}
	switch a.Op {
	case OExtract:
		return c.Extract(a.Args[0], a.P2+hi, a.P2+lo)
	case OConcat:
		lw := a.Args[1].S.W
		if hi < lw {
			return c.Extract(a.Args[1], hi, lo)
		}
		if lo >= lw {
			return c.Extract(a.Args[0], hi-lw, lo-lw)
		}
		return c.Concat(c.Extract(a.Args[0], hi-lw, 0), c.Extract(a.Args[1], lw-1, lo))
	case OZext:
		iw := a.Args[0].S.W
		if hi < iw {
			return c.Extract(a.Args[0], hi, lo)
		}
		if lo >= iw {
			return c.BVC(0, w)
		}
		return c.Concat(c.BVC(0, hi-iw+1), c.Extract(a.Args[0], iw-1, lo))
	case OSext:
		iw := a.Args[0].S.W
		if hi < iw {
			return c.Extract(a.Args[0], hi, lo)
		}
	case OBvAnd, OBvOr, OBvXor:
		// push extract through bitwise ops when one side is constant (masks)
		if a.Args[1].IsConst() || a.Args[0].IsConst() {
			return c.bvbin(a.Op, c.Extract(a.Args[0], hi, lo), c.Extract(a.Args[1], hi, lo))
		}
	case OBvNot:
		return c.BvNot(c.Extract(a.Args[0], hi, lo))
	case OIte:
		if a.Args[1].IsConst() || a.Args[2].IsConst() {
			return c.Ite(a.Args[0], c.Extract(a.Args[1], hi, lo), c.Extract(a.Args[2], hi, lo))
		}
	}
	return c.mk(&Term{Op: OExtract, S: BV(w), Args: []*Term{a}, P1: hi, P2: lo})
}

func (c *Ctx) Zext(a *Term, w int) *Term {
	if a.S.W == w {
		return a
	}
	if a.S.W > w {
		panic("smt.Zext narrowing")
	}
	if a.IsConst() {
		return c.BVC(a.C, w)
	}
	return c.Concat(c.BVC(0, w-a.S.W), a)
}

func (c *Ctx) Sext(a *Term, w int) *Term {
	if a.S.W == w {
		return a
	}
	if a.S.W > w {
		panic("smt.Sext narrowing")
	}
	if a.IsConst() {
		return c.BVC(uint64(sext64(a.C, a.S.W)), w)
	}
	return c.mk(&Term{Op: OSext, S: BV(w), Args: []*Term{a}})
}

// ---------- arrays ----------

func (c *Ctx) Select(arr, idx *Term) *Term {
	// read-over-write with syntactically decidable indices
	for arr.Op == OStore {
		j := arr.Args[1]
		if j == idx {
			return arr.Args[2]
		}
		if j.IsConst() && idx.IsConst() {
			arr = arr.Args[0]
			continue
		}
		break
	}
	if arr.Op == OConstArr {
		return c.BVC(0, 8)
	}
	return c.mk(&Term{Op: OSelect, S: BV(8), Args: []*Term{arr, idx}})
}

func (c *Ctx) Store(arr, idx, v *Term) *Term {
	return c.mk(&Term{Op: OStore, S: Arr, Args: []*Term{arr, idx, v}})
}

// ---------- floats ----------

func fpOf(s Sort) bool { return s.K == KFP32 || s.K == KFP64 }

func (c *Ctx) fpOK(s Sort) bool {
	if c.FloatUF {
		return s.K == KBV && (s.W == 32 || s.W == 64)
	}
	return fpOf(s)
}

// FSort is the sort of a float of the given width in the current mode.
func (c *Ctx) FSort(w int) Sort {
	if c.FloatUF {
		return BV(w)
	}
	if w == 32 {
		return FP32
	}
	return FP64
}

func is32(s Sort) bool { return s.K == KFP32 || (s.K == KBV && s.W == 32) }

var fpOpNames = map[Op]string{OFpAdd: "add", OFpSub: "sub", OFpMul: "mul", OFpDiv: "div", OFpEq: "eq", OFpLt: "lt", OFpLe: "le",
	OFpSqrt: "sqrt", OFpFma: "fma", OFpRti: "rti", OFpToFp: "cvt", OFpFromSBV: "fromsbv", OFpFromUBV: "fromubv", OFpToSBV: "tosbv", OFpToUBV: "toubv"}

func (c *Ctx) fuf(op Op, res Sort, extra int, args ...*Term) *Term {
	name := "fp_" + fpOpNames[op]
	for _, a := range args {
		name += "_" + itoa(a.S.W)
	}
	name += "_r" + itoa(res.W) + "_" + itoa(extra)
	return c.UF(name, res, args...)
}

func (c *Ctx) fconst(s Sort, f float64) *Term {
	if is32(s) {
		return c.F32C(float32(f))
	}
	return c.F64C(f)
}

func (t *Term) FloatVal() float64 {
	if is32(t.S) {
		return float64(math.Float32frombits(uint32(t.C)))
	}
	return math.Float64frombits(t.C)
}

func (c *Ctx) FpBin(op Op, a, b *Term) *Term {
	if a.S != b.S || !c.fpOK(a.S) {
		panic("smt.FpBin sort mismatch")
	}
	if a.IsConst() && b.IsConst() {
		x, y := a.FloatVal(), b.FloatVal()
		if is32(a.S) {
			x32, y32 := float32(x), float32(y)
			switch op {
			case OFpAdd:
				return c.F32C(x32 + y32)
			case OFpSub:
				return c.F32C(x32 - y32)
			case OFpMul:
				return c.F32C(x32 * y32)
			case OFpDiv:
				return c.F32C(x32 / y32)
			}
		} else {
			switch op {
			case OFpAdd:
				return c.F64C(x + y)
			case OFpSub:
				return c.F64C(x - y)
			case OFpMul:
				return c.F64C(x * y)
			case OFpDiv:
				return c.F64C(x / y)
			}
		}
	}
	if c.FloatUF {
		return c.fuf(op, a.S, 0, a, b)
	}
	return c.mk(&Term{Op: op, S: a.S, Args: []*Term{a, b}})
}

func (c *Ctx) FpCmp(op Op, a, b *Term) *Term {
	if a.S != b.S || !c.fpOK(a.S) {
		panic("smt.FpCmp sort mismatch")
	}
	if a.IsConst() && b.IsConst() {
		x, y := a.FloatVal(), b.FloatVal()
		switch op {
		case OFpEq:
			return c.BoolC(x == y)
		case OFpLt:
			return c.BoolC(x < y)
		case OFpLe:
			return c.BoolC(x <= y)
		}
	}
	if c.FloatUF {
		return c.fuf(op, Bool, 0, a, b)
	}
	return c.mk(&Term{Op: op, S: Bool, Args: []*Term{a, b}})
}

func (c *Ctx) FpUn(op Op, a *Term) *Term {
	if !c.fpOK(a.S) {
		panic("smt.FpUn sort")
	}
	if c.FloatUF {
		w := a.S.W
		// sign operations commute with (exact) precision conversions
		if (op == OFpNeg || op == OFpAbs) && a.Op == OUF && strings.HasPrefix(a.Name, "fp_cvt_") && len(a.Args) == 1 {
			return c.FpToFp(c.FpUn(op, a.Args[0]), a.S)
		}
		switch op {
		case OFpNeg:
			return c.BvXor(a, c.BVC(uint64(1)<<uint(w-1), w))
		case OFpAbs:
			return c.BvAnd(a, c.BVC(mask(w-1), w))
		}
		if a.IsConst() && op == OFpSqrt {
			if w == 32 {
				return c.F32C(float32(math.Sqrt(a.FloatVal())))
			}
			return c.F64C(math.Sqrt(a.FloatVal()))
		}
		return c.fuf(op, a.S, 0, a)
	}
	if a.IsConst() {
		x := a.FloatVal()
		switch op {
		case OFpNeg:
			if is32(a.S) {
				return c.mk(&Term{Op: OConst, S: FP32, C: a.C ^ 0x80000000})
			}
			return c.mk(&Term{Op: OConst, S: FP64, C: a.C ^ (1 << 63)})
		case OFpAbs:
			if is32(a.S) {
				return c.mk(&Term{Op: OConst, S: FP32, C: a.C &^ 0x80000000})
			}
			return c.mk(&Term{Op: OConst, S: FP64, C: a.C &^ (1 << 63)})
		case OFpSqrt:
			if is32(a.S) {
				return c.F32C(float32(math.Sqrt(x)))
			}
			return c.F64C(math.Sqrt(x))
		}
	}
	return c.mk(&Term{Op: op, S: a.S, Args: []*Term{a}})
}

func (c *Ctx) FpPred(op Op, a *Term) *Term {
	if c.FloatUF && !a.IsConst() {
		// exact classification on the bit pattern
		w := a.S.W
		ew, mw := 8, 23
		if w == 64 {
			ew, mw = 11, 52
		}
		exp := c.Extract(a, w-2, mw)
		man := c.Extract(a, mw-1, 0)
		expOnes := c.Eq(exp, c.BVC(mask(ew), ew))
		manZero := c.Eq(man, c.BVC(0, mw))
		sign := c.Eq(c.Extract(a, w-1, w-1), c.BVC(1, 1))
		switch op {
		case OFpIsNaN:
			return c.And(expOnes, c.Not(manZero))
		case OFpIsInf:
			return c.And(expOnes, manZero)
		case OFpIsNeg:
			return c.And(sign, c.Not(c.And(expOnes, c.Not(manZero))))
		case OFpIsZero:
			return c.And(c.Eq(exp, c.BVC(0, ew)), manZero)
		}
	}
	if a.IsConst() {
		x := a.FloatVal()
		switch op {
		case OFpIsNaN:
			return c.BoolC(math.IsNaN(x))
		case OFpIsInf:
			return c.BoolC(math.IsInf(x, 0))
		case OFpIsNeg:
			return c.BoolC(math.Signbit(x) && !math.IsNaN(x))
		case OFpIsZero:
			return c.BoolC(x == 0)
		}
	}
	return c.mk(&Term{Op: op, S: Bool, Args: []*Term{a}})
}

func (c *Ctx) FpRti(a *Term, mode int) *Term {
	if a.IsConst() {
		x := a.FloatVal()
		var r float64
		ok := true
		switch mode {
		case 0:
			r = math.RoundToEven(x)
		case 1:
			r = math.Trunc(x)
		case 2:
			r = math.Ceil(x)
		case 3:
			r = math.Floor(x)
		case 4:
			r = math.Round(x)
		default:
			ok = false
		}
		if ok {
			return c.fconst(a.S, r)
		}
	}
	if c.FloatUF {
		return c.fuf(OFpRti, a.S, mode, a)
	}
	return c.mk(&Term{Op: OFpRti, S: a.S, Args: []*Term{a}, P1: mode})
}

func (c *Ctx) FpFma(a, b, d *Term) *Term {
	if c.FloatUF {
		return c.fuf(OFpFma, a.S, 0, a, b, d)
	}
	return c.mk(&Term{Op: OFpFma, S: a.S, Args: []*Term{a, b, d}})
}

func (c *Ctx) FpToFp(a *Term, s Sort) *Term {
	if a.S == s {
		return a
	}
	if a.IsConst() {
		return c.fconst(s, a.FloatVal())
	}
	if c.FloatUF {
		// widening followed by narrowing back is the identity
		if a.Op == OUF && strings.HasPrefix(a.Name, "fp_cvt_") && len(a.Args) == 1 && a.Args[0].S == s && a.S.W > s.W {
			return a.Args[0]
		}
		return c.fuf(OFpToFp, s, 0, a)
	}
	return c.mk(&Term{Op: OFpToFp, S: s, Args: []*Term{a}})
}

func (c *Ctx) FpFromBits(a *Term) *Term {
	if c.FloatUF {
		return a
	}
	var s Sort
	switch a.S.W {
	case 32:
		s = FP32
	case 64:
		s = FP64
	default:
		panic("FpFromBits width")
	}
	if a.IsConst() {
		return c.mk(&Term{Op: OConst, S: s, C: a.C})
	}
	if a.Op == OFpToBits {
		return a.Args[0]
	}
	return c.mk(&Term{Op: OFpFromBits, S: s, Args: []*Term{a}})
}

// FpToBits: bit pattern of a float. SMT-LIB has no such function (NaN has many
// encodings); terms built from FpFromBits fold back exactly, anything else gets
// a fresh bit-vector b with the side constraint to_fp(b) = a (see Solver).
func (c *Ctx) FpToBits(a *Term) *Term {
	if c.FloatUF {
		return a
	}
	w := 32
	if a.S.K == KFP64 {
		w = 64
	}
	if a.IsConst() {
		return c.BVC(a.C, w)
	}
	if a.Op == OFpFromBits {
		return a.Args[0]
	}
	return c.mk(&Term{Op: OFpToBits, S: BV(w), Args: []*Term{a}})
}

func (c *Ctx) FpFromInt(a *Term, signed bool, s Sort) *Term {
	if a.IsConst() {
		if signed {
			return c.fconst(s, float64(sext64(a.C, a.S.W)))
		}
		if is32(s) {
			return c.F32C(float32(a.C))
		}
		return c.F64C(float64(a.C))
	}
	if c.FloatUF {
		if signed {
			return c.fuf(OFpFromSBV, s, 0, a)
		}
		return c.fuf(OFpFromUBV, s, 0, a)
	}
	op := OFpFromUBV
	if signed {
		op = OFpFromSBV
	}
	return c.mk(&Term{Op: op, S: s, Args: []*Term{a}})
}

func (c *Ctx) FpToInt(a *Term, signed bool, w int) *Term {
	if c.FloatUF {
		if signed {
			return c.fuf(OFpToSBV, BV(w), 0, a)
		}
		return c.fuf(OFpToUBV, BV(w), 0, a)
	}
	op := OFpToUBV
	if signed {
		op = OFpToSBV
	}
	return c.mk(&Term{Op: op, S: BV(w), Args: []*Term{a}})
}

func (c *Ctx) UF(name string, s Sort, args ...*Term) *Term {
	return c.mk(&Term{Op: OUF, S: s, Name: name, Args: args})
}
