package smt

import (
	"bufio"
	"sort"
	"fmt"
	"io"
	"os"
	"os/exec"
	"strconv"
	"strings"
	"time"
)

// Solver drives one long-lived SMT solver process over a pipe.
type Solver struct {
	ctx     *Ctx
	kind    string // z3 | z3-new | cvc5
	cmd     *exec.Cmd
	in      io.WriteCloser
	out     *bufio.Reader
	sent    map[int]bool
	timeout int // ms
	Log     io.Writer

	defs     map[int][]string // SMT-LIB lines that define term id (declare/define/assert)
	curDef   int
	IncrMs   int // timeout of the incremental attempt (ms); 0 = use timeout
	NFresh   int // queries decided by the non-incremental fallback

	// statistics
	NSat, NUnsat, NUnknown int
	Time                   time.Duration
	LastErr                string
}

// IncrementalTimeoutMs bounds a query in the persistent solver session.
var IncrementalTimeoutMs = 3000

func NewSolver(ctx *Ctx, kind string, timeoutMs int) (*Solver, error) {
	s := &Solver{ctx: ctx, kind: kind, timeout: timeoutMs}
	if err := s.start(); err != nil {
		return nil, err
	}
	return s, nil
}

func (s *Solver) start() error {
	var cmd *exec.Cmd
	switch s.kind {
	case "z3":
		cmd = exec.Command("/usr/bin/z3", "-in", "-smt2")
	case "z3-new":
		cmd = exec.Command("z3-new", "-in", "-smt2")
	case "cvc5":
		cmd = exec.Command("cvc5", "--incremental", "--lang=smt2", "--produce-models", fmt.Sprintf("--tlimit-per=%d", s.timeout))
	default:
		return fmt.Errorf("unknown solver %q", s.kind)
	}
	in, err := cmd.StdinPipe()
	if err != nil {
		return err
	}
	out, err := cmd.StdoutPipe()
	if err != nil {
		return err
	}
	cmd.Stderr = os.Stderr
	if err := cmd.Start(); err != nil {
		return err
	}
	s.cmd, s.in, s.out = cmd, in, bufio.NewReaderSize(out, 1<<20)
	s.sent = map[int]bool{}
	if s.kind == "cvc5" {
		s.write("(set-logic ALL)\n")
	} else {
		// the incremental session gets a short time limit: queries it cannot
		// answer quickly go to one-shot runs of the other solvers (z3 4.8.12's
		// incremental core stalls on some comparator/ite networks that
		// z3 5.x and cvc5 decide in milliseconds)
		inc := s.timeout
		if inc > IncrementalTimeoutMs {
			inc = IncrementalTimeoutMs
		}
		s.write(fmt.Sprintf("(set-option :timeout %d)\n", inc))
	}
	s.write("(set-option :produce-models true)\n")
	return nil
}

func (s *Solver) SetTimeout(ms int) {
	s.timeout = ms
	if s.kind != "cvc5" {
		s.write(fmt.Sprintf("(set-option :timeout %d)\n", ms))
	}
}

func (s *Solver) Close() {
	if s.cmd != nil {
		s.in.Close()
		s.cmd.Process.Kill()
		s.cmd.Wait()
		s.cmd = nil
	}
}

func (s *Solver) restart() {
	s.Close()
	if err := s.start(); err != nil {
		panic(err)
	}
}

func (s *Solver) write(str string) {
	if s.Log != nil {
		io.WriteString(s.Log, str)
	}
	io.WriteString(s.in, str)
}

// ref returns the SMT-LIB text that denotes t (sending definitions first).
func (s *Solver) ref(t *Term) string {
	switch t.Op {
	case OConst:
		return constText(t)
	}
	if !s.sent[t.ID] {
		s.define(t)
	}
	if t.Op == OVar {
		return t.Name
	}
	return "t" + strconv.Itoa(t.ID)
}

func constText(t *Term) string {
	switch t.S.K {
	case KBool:
		if t.C != 0 {
			return "true"
		}
		return "false"
	case KBV:
		if t.S.W%4 == 0 {
			return fmt.Sprintf("#x%0*x", t.S.W/4, t.C)
		}
		return fmt.Sprintf("#b%0*b", t.S.W, t.C)
	case KFP32:
		return fmt.Sprintf("(fp #b%b #b%08b #b%023b)", (t.C>>31)&1, (t.C>>23)&0xff, t.C&0x7fffff)
	case KFP64:
		return fmt.Sprintf("(fp #b%b #b%011b #b%052b)", (t.C>>63)&1, (t.C>>52)&0x7ff, t.C&((1<<52)-1))
	case KInt:
		return fmt.Sprintf("%d", int64(t.C))
	}
	panic("constText")
}

var opName = map[Op]string{
	ONot: "not", OAnd: "and", OOr: "or", OXorB: "xor", OEq: "=", OIte: "ite",
	OBvNot: "bvnot", OBvNeg: "bvneg", OBvAnd: "bvand", OBvOr: "bvor", OBvXor: "bvxor",
	OBvAdd: "bvadd", OBvSub: "bvsub", OBvMul: "bvmul", OBvUDiv: "bvudiv", OBvURem: "bvurem",
	OBvSDiv: "bvsdiv", OBvSRem: "bvsrem", OBvShl: "bvshl", OBvLshr: "bvlshr", OBvAshr: "bvashr",
	OBvUlt: "bvult", OBvUle: "bvule", OBvSlt: "bvslt", OBvSle: "bvsle", OConcat: "concat",
	OSelect: "select", OStore: "store",
	OFpNeg: "fp.neg", OFpAbs: "fp.abs", OFpMin: "fp.min", OFpMax: "fp.max",
	OFpEq: "fp.eq", OFpLt: "fp.lt", OFpLe: "fp.leq", OFpIsNaN: "fp.isNaN", OFpIsInf: "fp.isInfinite",
	OFpIsNeg: "fp.isNegative", OFpIsZero: "fp.isZero", OFpIsSubnormal: "fp.isSubnormal",
}

var rmName = []string{"RNE", "RTZ", "RTP", "RTN", "RNA"}

func fpParams(s Sort) string {
	if s.K == KFP32 {
		return "8 24"
	}
	return "11 53"
}

func (s *Solver) defLine(id int, line string) {
	if s.defs == nil {
		s.defs = map[int][]string{}
	}
	s.defs[id] = append(s.defs[id], line)
	s.write(line)
}

func (s *Solver) define(t *Term) {
	s.sent[t.ID] = true
	if t.Op == OVar {
		s.defLine(t.ID, fmt.Sprintf("(declare-const %s %s)\n", t.Name, t.S))
		return
	}
	args := make([]string, len(t.Args))
	for i, a := range t.Args {
		args[i] = s.ref(a)
	}
	var body string
	switch t.Op {
	case OExtract:
		body = fmt.Sprintf("((_ extract %d %d) %s)", t.P1, t.P2, args[0])
	case OSext:
		body = fmt.Sprintf("((_ sign_extend %d) %s)", t.S.W-t.Args[0].S.W, args[0])
	case OZext:
		body = fmt.Sprintf("((_ zero_extend %d) %s)", t.S.W-t.Args[0].S.W, args[0])
	case OConstArr:
		body = "((as const (Array (_ BitVec 64) (_ BitVec 8))) #x00)"
	case OFpAdd, OFpSub, OFpMul, OFpDiv:
		n := map[Op]string{OFpAdd: "fp.add", OFpSub: "fp.sub", OFpMul: "fp.mul", OFpDiv: "fp.div"}[t.Op]
		body = fmt.Sprintf("(%s RNE %s %s)", n, args[0], args[1])
	case OFpFma:
		body = fmt.Sprintf("(fp.fma RNE %s %s %s)", args[0], args[1], args[2])
	case OFpSqrt:
		body = fmt.Sprintf("(fp.sqrt RNE %s)", args[0])
	case OFpRti:
		body = fmt.Sprintf("(fp.roundToIntegral %s %s)", rmName[t.P1], args[0])
	case OFpToFp:
		body = fmt.Sprintf("((_ to_fp %s) RNE %s)", fpParams(t.S), args[0])
	case OFpFromBits:
		body = fmt.Sprintf("((_ to_fp %s) %s)", fpParams(t.S), args[0])
	case OFpFromSBV:
		body = fmt.Sprintf("((_ to_fp %s) RNE %s)", fpParams(t.S), args[0])
	case OFpFromUBV:
		body = fmt.Sprintf("((_ to_fp_unsigned %s) RNE %s)", fpParams(t.S), args[0])
	case OFpToSBV:
		body = fmt.Sprintf("((_ fp.to_sbv %d) RTZ %s)", t.S.W, args[0])
	case OFpToUBV:
		body = fmt.Sprintf("((_ fp.to_ubv %d) RTZ %s)", t.S.W, args[0])
	case OFpToBits:
		// fresh bit-vector constrained to denote the float
		n := "t" + strconv.Itoa(t.ID)
		s.defLine(t.ID, fmt.Sprintf("(declare-const %s %s)\n", n, t.S))
		s.defLine(t.ID, fmt.Sprintf("(assert (= ((_ to_fp %s) %s) %s))\n", fpParams(t.Args[0].S), n, args[0]))
		return
	case OUF:
		key := -1 - len(s.sent)
		_ = key
		if !s.sent[ufKey(t)] {
			s.sent[ufKey(t)] = true
			var as []string
			for _, a := range t.Args {
				as = append(as, a.S.String())
			}
			s.defLine(t.ID, fmt.Sprintf("(declare-fun %s (%s) %s)\n", t.Name, strings.Join(as, " "), t.S))
		}
		if len(args) == 0 {
			body = t.Name
		} else {
			body = fmt.Sprintf("(%s %s)", t.Name, strings.Join(args, " "))
		}
	default:
		n, ok := opName[t.Op]
		if !ok {
			panic(fmt.Sprintf("smt: no printer for op %d", t.Op))
		}
		body = fmt.Sprintf("(%s %s)", n, strings.Join(args, " "))
	}
	s.defLine(t.ID, fmt.Sprintf("(define-fun t%d () %s %s)\n", t.ID, t.S, body))
}

// closure lists, in definition order, the ids of all terms the given terms depend on.
func closure(ts []*Term) []int {
	seen := map[int]bool{}
	var ids []int
	var walk func(t *Term)
	walk = func(t *Term) {
		if seen[t.ID] {
			return
		}
		seen[t.ID] = true
		for _, a := range t.Args {
			walk(a)
		}
		ids = append(ids, t.ID)
	}
	for _, t := range ts {
		walk(t)
	}
	sort.Ints(ids)
	return ids
}

// checkFresh decides the query with a fresh, non-incremental solver process
// (z3's incremental mode does not use its bit-blasting tactics and gives up on
// multiplier/divider-heavy queries that the one-shot mode decides quickly).
func (s *Solver) checkFresh(asserts []*Term, wantModel []*Term, kind string) (Result, []uint64) {
	var sb strings.Builder
	if kind == "cvc5" {
		sb.WriteString("(set-logic ALL)\n(set-option :produce-models true)\n")
	} else {
		sb.WriteString(fmt.Sprintf("(set-option :timeout %d)\n", s.timeout))
	}
	ufDone := map[string]bool{}
	for _, ls := range s.defs {
		for _, l := range ls {
			if strings.HasPrefix(l, "(declare-fun") && !ufDone[l] {
				ufDone[l] = true
				sb.WriteString(l)
			}
		}
	}
	for _, id := range closure(append(append([]*Term{}, asserts...), wantModel...)) {
		for _, l := range s.defs[id] {
			if strings.HasPrefix(l, "(declare-fun") {
				continue
			}
			sb.WriteString(l)
		}
	}
	for _, a := range asserts {
		if a.IsConst() {
			continue
		}
		sb.WriteString("(assert " + s.ref(a) + ")\n")
	}
	sb.WriteString("(check-sat)\n")
	if len(wantModel) > 0 {
		var ms []string
		for _, m := range wantModel {
			ms = append(ms, s.ref(m))
		}
		for i := 0; i < len(ms); i += 64 {
			j := min(i+64, len(ms))
			sb.WriteString("(get-value (" + strings.Join(ms[i:j], " ") + "))\n")
		}
	}
	var cmd *exec.Cmd
	switch kind {
	case "cvc5":
		cmd = exec.Command("cvc5", "--lang=smt2", fmt.Sprintf("--tlimit=%d", s.timeout), "--solve-bv-as-int=sum")
	case "z3-new":
		cmd = exec.Command("z3-new", "-in", "-smt2")
	default:
		cmd = exec.Command("/usr/bin/z3", "-in", "-smt2")
	}
	cmd.Stdin = strings.NewReader(sb.String())
	out, _ := cmd.Output()
	txt := string(out)
	if strings.Contains(txt, "(error") && !strings.HasPrefix(strings.TrimSpace(txt), "sat") && !strings.HasPrefix(strings.TrimSpace(txt), "unsat") {
		s.LastErr = "fresh solver: " + strings.SplitN(txt, "\n", 2)[0]
		return Unknown, nil
	}
	lines := strings.SplitN(strings.TrimSpace(txt), "\n", 2)
	switch strings.TrimSpace(lines[0]) {
	case "unsat":
		return Unsat, nil
	case "sat":
		if len(wantModel) == 0 {
			return Sat, nil
		}
		if len(lines) < 2 {
			return Unknown, nil
		}
		var vals []uint64
		rest := lines[1]
		for i := 0; i < len(wantModel); i += 64 {
			j := min(i+64, len(wantModel))
			// one s-expression per get-value
			depth, end := 0, -1
			for k := 0; k < len(rest); k++ {
				if rest[k] == '(' {
					depth++
				} else if rest[k] == ')' {
					depth--
					if depth == 0 {
						end = k + 1
						break
					}
				}
			}
			if end < 0 {
				return Unknown, nil
			}
			vs, err := parseValues(rest[:end], j-i)
			if err != nil {
				s.LastErr = "fresh get-value parse: " + err.Error()
				return Unknown, nil
			}
			vals = append(vals, vs...)
			rest = rest[end:]
		}
		return Sat, vals
	}
	return Unknown, nil
}

var ufIDs = map[string]int{}

func ufKey(t *Term) int {
	k := t.Name
	id, ok := ufIDs[k]
	if !ok {
		id = -1 - len(ufIDs)
		ufIDs[k] = id
	}
	return id
}

type Result int

const (
	Unsat Result = iota
	Sat
	Unknown
)

func (r Result) String() string { return [...]string{"unsat", "sat", "unknown"}[r] }

func (s *Solver) readLine() (string, error) {
	l, err := s.out.ReadString('\n')
	return strings.TrimSpace(l), err
}

// Check decides satisfiability of the conjunction of asserts. If wantModel
// is non-nil and the result is sat, the values of those terms are returned.
func (s *Solver) Check(asserts []*Term, wantModel []*Term) (Result, []uint64) {
	t0 := time.Now()
	defer func() { s.Time += time.Since(t0) }()
	refs := make([]string, 0, len(asserts))
	for _, a := range asserts {
		if a.IsConst() {
			if a.C == 0 {
				s.NUnsat++
				return Unsat, nil
			}
			continue
		}
		refs = append(refs, s.ref(a))
	}
	mrefs := make([]string, len(wantModel))
	for i, m := range wantModel {
		mrefs[i] = s.ref(m)
	}
	hard := false
	for _, a := range asserts {
		if a.Hard {
			hard = true
		}
	}
	if hard && os.Getenv("GOSYM_DEBUG_HARD") != "" {
		for _, a := range asserts {
			if a.Hard {
				fmt.Fprintf(os.Stderr, "HARD: %s\n", a.String())
			}
		}
	}
	if hard {
		// multiplier/divider/float content: z3's incremental core gives up where the
		// one-shot tactics decide quickly; go non-incremental right away
		for _, k := range []string{s.kind, "z3-new", "cvc5"} {
			r2, v2 := s.checkFresh(asserts, wantModel, k)
			if r2 != Unknown {
				s.NFresh++
				switch r2 {
				case Sat:
					s.NSat++
				case Unsat:
					s.NUnsat++
				}
				return r2, v2
			}
		}
		s.NUnknown++
		return Unknown, nil
	}
	var sb strings.Builder
	sb.WriteString("(push 1)\n")
	for _, r := range refs {
		sb.WriteString("(assert " + r + ")\n")
	}
	sb.WriteString("(check-sat)\n")
	s.write(sb.String())
	res := Unknown
	for {
		l, err := s.readLine()
		if err != nil {
			s.LastErr = "solver died: " + err.Error()
			s.restart()
			s.NUnknown++
			return Unknown, nil
		}
		if l == "" {
			continue
		}
		if strings.HasPrefix(l, "(error") {
			s.LastErr = l
			// drain: the check-sat answer still follows
			res = Unknown
			// treat as inconclusive; resync by restarting the solver
			s.restart()
			s.NUnknown++
			return Unknown, nil
		}
		switch l {
		case "sat":
			res = Sat
		case "unsat":
			res = Unsat
		case "unknown", "timeout":
			res = Unknown
		default:
			continue
		}
		break
	}
	var vals []uint64
	if res == Sat && len(wantModel) > 0 {
		vals = make([]uint64, len(wantModel))
		// ask in chunks to keep lines small
		for i := 0; i < len(mrefs); i += 64 {
			j := min(i+64, len(mrefs))
			s.write("(get-value (" + strings.Join(mrefs[i:j], " ") + "))\n")
			txt, err := s.readSexp()
			if err != nil {
				s.LastErr = "get-value: " + err.Error()
				s.restart()
				s.NUnknown++
				return Unknown, nil
			}
			vs, perr := parseValues(txt, j-i)
			if perr != nil {
				s.LastErr = "get-value parse: " + perr.Error() + " in " + txt
				s.restart()
				s.NUnknown++
				return Unknown, nil
			}
			copy(vals[i:j], vs)
		}
	}
	s.write("(pop 1)\n")
	if res == Unknown {
		// non-incremental fallbacks: same solver one-shot, then the others
		order := []string{"z3-new", "cvc5", s.kind}
		if s.kind != "z3" {
			order = []string{s.kind, "z3-new", "cvc5"}
		}
		for _, k := range order {
			r2, v2 := s.checkFresh(asserts, wantModel, k)
			if r2 != Unknown {
				res, vals = r2, v2
				s.NFresh++
				break
			}
		}
	}
	switch res {
	case Sat:
		s.NSat++
	case Unsat:
		s.NUnsat++
	default:
		s.NUnknown++
	}
	return res, vals
}

// readSexp reads one balanced s-expression from the solver.
func (s *Solver) readSexp() (string, error) {
	var sb strings.Builder
	depth := 0
	started := false
	for {
		b, err := s.out.ReadByte()
		if err != nil {
			return "", err
		}
		if !started {
			if b == '(' {
				started = true
			} else if b == ' ' || b == '\n' || b == '\r' || b == '\t' {
				continue
			}
		}
		sb.WriteByte(b)
		if b == '(' {
			depth++
		} else if b == ')' {
			depth--
			if depth == 0 && started {
				break
			}
		}
	}
	txt := sb.String()
	if strings.HasPrefix(txt, "(error") {
		return "", fmt.Errorf("%s", txt)
	}
	return txt, nil
}

// parseValues parses "((name val) (name val) ...)" with val in
// #x.., #b.., true, false, (_ bvN w), (fp ...) (reduced to bits).
func parseValues(txt string, n int) ([]uint64, error) {
	toks := tokenize(txt)
	pos := 0
	next := func() string {
		if pos >= len(toks) {
			return ""
		}
		t := toks[pos]
		pos++
		return t
	}
	if next() != "(" {
		return nil, fmt.Errorf("expected (")
	}
	var out []uint64
	for i := 0; i < n; i++ {
		if next() != "(" {
			return nil, fmt.Errorf("expected ( for pair %d", i)
		}
		// skip the term (one token or balanced sexp)
		if t := next(); t == "(" {
			d := 1
			for d > 0 {
				switch next() {
				case "(":
					d++
				case ")":
					d--
				case "":
					return nil, fmt.Errorf("eof")
				}
			}
		}
		v, err := parseVal(next, toks, &pos)
		if err != nil {
			return nil, err
		}
		out = append(out, v)
		if next() != ")" {
			return nil, fmt.Errorf("expected ) after pair %d", i)
		}
	}
	return out, nil
}

func parseVal(next func() string, toks []string, pos *int) (uint64, error) {
	t := next()
	switch {
	case t == "true":
		return 1, nil
	case t == "false":
		return 0, nil
	case strings.HasPrefix(t, "#x"):
		v, err := strconv.ParseUint(t[2:], 16, 64)
		return v, err
	case strings.HasPrefix(t, "#b"):
		v, err := strconv.ParseUint(t[2:], 2, 64)
		return v, err
	case t == "(":
		h := next()
		if h == "_" {
			bv := next()
			next() // width
			if next() != ")" {
				return 0, fmt.Errorf("bad (_ bv)")
			}
			return strconv.ParseUint(strings.TrimPrefix(bv, "bv"), 10, 64)
		}
		if h == "fp" {
			var parts [3]string
			for i := range parts {
				parts[i] = next()
			}
			if next() != ")" {
				return 0, fmt.Errorf("bad fp")
			}
			bitsOf := func(p string) (uint64, int) {
				if strings.HasPrefix(p, "#x") {
					v, _ := strconv.ParseUint(p[2:], 16, 64)
					return v, 4 * (len(p) - 2)
				}
				v, _ := strconv.ParseUint(p[2:], 2, 64)
				return v, len(p) - 2
			}
			sg, _ := bitsOf(parts[0])
			ex, ew := bitsOf(parts[1])
			mn, mw := bitsOf(parts[2])
			return sg<<uint(ew+mw) | ex<<uint(mw) | mn, nil
		}
		if h == "-" { // Int negative
			v, err := strconv.ParseInt(next(), 10, 64)
			if next() != ")" {
				return 0, fmt.Errorf("bad (- n)")
			}
			return uint64(-v), err
		}
		return 0, fmt.Errorf("unsupported value (%s", h)
	default:
		v, err := strconv.ParseInt(t, 10, 64)
		return uint64(v), err
	}
}

func tokenize(s string) []string {
	var toks []string
	i := 0
	for i < len(s) {
		c := s[i]
		switch {
		case c == '(' || c == ')':
			toks = append(toks, string(c))
			i++
		case c == ' ' || c == '\n' || c == '\t' || c == '\r':
			i++
		case c == '|':
			j := i + 1
			for j < len(s) && s[j] != '|' {
				j++
			}
			toks = append(toks, s[i:j+1])
			i = j + 1
		default:
			j := i
			for j < len(s) && !strings.ContainsRune("() \n\t\r", rune(s[j])) {
				j++
			}
			toks = append(toks, s[i:j])
			i = j
		}
	}
	return toks
}

// Enumerate lists up to max distinct values of term t under the conjunction of
// asserts, using one incremental session with blocking clauses. complete is
// true when the enumeration ended with unsat (all values found).
func (s *Solver) Enumerate(asserts []*Term, t *Term, max int) (vals []uint64, complete bool) {
	t0 := time.Now()
	defer func() { s.Time += time.Since(t0) }()
	refs := make([]string, 0, len(asserts))
	for _, a := range asserts {
		if a.IsConst() {
			if a.C == 0 {
				s.NUnsat++
				return nil, true
			}
			continue
		}
		refs = append(refs, s.ref(a))
	}
	tr := s.ref(t)
	var sb strings.Builder
	sb.WriteString("(push 1)\n")
	for _, r := range refs {
		sb.WriteString("(assert " + r + ")\n")
	}
	s.write(sb.String())
	fail := func(msg string) ([]uint64, bool) {
		s.LastErr = msg
		s.restart()
		s.NUnknown++
		return vals, false
	}
	for {
		s.write("(check-sat)\n")
		var res string
		for {
			l, err := s.readLine()
			if err != nil {
				return fail("solver died: " + err.Error())
			}
			if l == "" {
				continue
			}
			if strings.HasPrefix(l, "(error") {
				return fail(l)
			}
			if l == "sat" || l == "unsat" || l == "unknown" || l == "timeout" {
				res = l
				break
			}
		}
		if res == "unsat" {
			s.NUnsat++
			s.write("(pop 1)\n")
			return vals, true
		}
		if res != "sat" {
			s.NUnknown++
			s.write("(pop 1)\n")
			return vals, false
		}
		s.NSat++
		s.write("(get-value (" + tr + "))\n")
		txt, err := s.readSexp()
		if err != nil {
			return fail("get-value: " + err.Error())
		}
		vs, perr := parseValues(txt, 1)
		if perr != nil {
			return fail("get-value parse: " + perr.Error())
		}
		vals = append(vals, vs[0])
		if len(vals) >= max {
			s.write("(pop 1)\n")
			return vals, false
		}
		c := s.ctx.mk(&Term{Op: OConst, S: t.S, C: vs[0]})
		s.write("(assert (not (= " + tr + " " + constText(c) + ")))\n")
	}
}

func hasFP(ts []*Term) bool { return false }
