// gosym: bounded symbolic execution of Go SSA for the mgpusim property checks.
//
//	gosym check <ID> [-tier quick|thorough] [-j N]     run a registered check
//	gosym worker -spec <file>                          (internal) exploration worker
package main

import (
	"bufio"
	"crypto/sha256"
	"encoding/json"
	"flag"
	"fmt"
	"os"
	"os/exec"
	"path/filepath"
	"runtime/debug"
	"runtime/pprof"
	"sort"
	"strings"
	"sync"
	"runtime"
	"strconv"
	"time"

	"gosym/interp"
	"gosym/smt"
)

const repoDir = "/repo"
const repoMod = "github.com/sarchlab/mgpusim/v4"

var verifDir = "/verif"

type EntrySpec struct {
	Pkg    string         `json:"pkg"` // relative to repo module, e.g. amd/emu
	Fn     string         `json:"fn"`
	Tiers  []string       `json:"tiers"`            // which tiers run it (default both)
	Params map[string]int `json:"params,omitempty"` // per-tier overrides via "quick:"/"thorough:" prefix
	Desc   string         `json:"desc,omitempty"`
}

type Spec struct {
	ID       string      `json:"id"`
	Load     []string    `json:"load"` // package patterns relative to /repo
	Entries  []EntrySpec `json:"entries"`
	Bounds   []string    `json:"bounds"`
	Outside  []string    `json:"outside_claim"`
	Assume   []string    `json:"assumptions"`
	Solver   string      `json:"solver,omitempty"`
	Timeout  int         `json:"timeout_ms,omitempty"`
	MaxConc  int         `json:"max_conc,omitempty"`
	MaxInstr int64       `json:"max_instr,omitempty"`
	Level    string      `json:"level,omitempty"`
	FloatUF  bool        `json:"float_uf,omitempty"`
	// Focus: package path prefixes whose synchronisation operations are
	// scheduling points of the cooperative goroutine scheduler; MaxPreempt
	// bounds the preemptions per path (default 2).
	Focus      []string `json:"focus,omitempty"`
	FocusFuncs []string `json:"focus_funcs,omitempty"`
	// MapRange: package patterns scanned for range-over-map statements (C05);
	// MapRangeOutside: "Recv.Func=reason" for sites deliberately not checked
	// Pregen: Go programs (package main, under the harness overlay) that are
	// run natively in /repo before the check; their standard output becomes
	// the overlay file Out (e.g. data extracted from files of the current tree)
	Pregen   []PregenSpec `json:"pregen,omitempty"`
	MapRange        []string `json:"map_range,omitempty"`
	MapRangeOutside []string `json:"map_range_outside,omitempty"` // e.g. "(*github.com/sarchlab/akita/v4/sim.SerialEngine).Run"
	MaxPreempt *int     `json:"max_preempt,omitempty"`
	// PrefixDepth/PrefixBudget: paths are counted per prefix of PrefixDepth choice
	// decisions (e.g. per opcode row); a prefix that exceeds PrefixBudget paths is
	// cut off and reported inconclusive instead of starving the other prefixes.
	PrefixDepth  int `json:"prefix_depth,omitempty"`
	PrefixBudget int `json:"prefix_budget,omitempty"`
	Quick    TierSpec    `json:"quick"`
	Thorough TierSpec    `json:"thorough"`
}

type PregenSpec struct {
	Main string `json:"main"` // package path relative to /repo, e.g. "zzverif/c01extract"
	Out  string `json:"out"`  // virtual file relative to /repo, e.g. "zzverif/c01data/data.go"
}

// runPregen executes the spec's pregen programs and publishes their outputs
// through GOSYM_PREGEN (inherited by workers and used by buildOverlay).
func runPregen(spec Spec) (cleanup func()) {
	cleanup = func() {}
	if len(spec.Pregen) == 0 || os.Getenv("GOSYM_PREGEN") != "" {
		return
	}
	dir, err := os.MkdirTemp("", "gosym-pregen-")
	if err != nil {
		fatal(err)
	}
	cleanup = func() { os.RemoveAll(dir) }
	exitCleanups = append(exitCleanups, cleanup)
	ov, _ := buildOverlay()
	ovj := map[string]map[string]string{"Replace": {}}
	i := 0
	for virt, content := range ov {
		real := filepath.Join(dir, fmt.Sprintf("o%d.go", i))
		i++
		os.WriteFile(real, content, 0o644)
		ovj["Replace"][virt] = real
	}
	b, _ := json.Marshal(ovj)
	ovPath := filepath.Join(dir, "overlay.json")
	os.WriteFile(ovPath, b, 0o644)
	var parts []string
	for k, pg := range spec.Pregen {
		cmd := exec.Command("go", "run", "-overlay", ovPath, "./"+pg.Main)
		cmd.Dir = repoDir
		cmd.Env = append(os.Environ(), goEnv()...)
		cmd.Stderr = os.Stderr
		out, err := cmd.Output()
		if err != nil {
			cleanup()
			fatal(fmt.Errorf("pregen %s failed: %v", pg.Main, err))
		}
		real := filepath.Join(dir, fmt.Sprintf("gen%d.go", k))
		os.WriteFile(real, out, 0o644)
		parts = append(parts, filepath.Join(repoDir, pg.Out)+"="+real)
	}
	os.Setenv("GOSYM_PREGEN", strings.Join(parts, ";"))
	return
}

type TierSpec struct {
	BudgetS int            `json:"budget_s"` // wall-clock budget; exceeding it is reported inconclusive
	Params  map[string]int `json:"params"`
}

func loadSpec(id string) Spec {
	b, err := os.ReadFile(filepath.Join(verifDir, "checks", id+".json"))
	if err != nil {
		fatal(err)
	}
	var s Spec
	if err := json.Unmarshal(b, &s); err != nil {
		fatal(fmt.Errorf("spec %s: %v", id, err))
	}
	if s.Solver == "" {
		s.Solver = "z3"
	}
	if s.Timeout == 0 {
		s.Timeout = 20000
	}
	return s
}

func fatal(err error) {
	fmt.Fprintln(os.Stderr, "gosym:", err)
	os.Exit(2)
}

// overlay maps /repo/<path> -> contents for every file under /verif/harness.
func buildOverlay() (map[string][]byte, []string) {
	ov := map[string][]byte{}
	var files []string
	root := filepath.Join(verifDir, "harness")
	filepath.Walk(root, func(p string, info os.FileInfo, err error) error {
		if err != nil || info.IsDir() || !strings.HasSuffix(p, ".go") {
			return nil
		}
		rel, _ := filepath.Rel(root, p)
		b, err := os.ReadFile(p)
		if err != nil {
			fatal(err)
		}
		ov[filepath.Join(repoDir, rel)] = b
		files = append(files, rel)
		return nil
	})
	for _, kv := range strings.Split(os.Getenv("GOSYM_PREGEN"), ";") {
		if i := strings.Index(kv, "="); i > 0 {
			if b, err := os.ReadFile(kv[i+1:]); err == nil {
				ov[kv[:i]] = b
			}
		}
	}
	sort.Strings(files)
	return ov, files
}

func goEnv() []string {
	return []string{
		"PATH=/opt/veriftools/go1.26.8/bin:" + os.Getenv("PATH"),
		"GOTOOLCHAIN=local", "GOFLAGS=-mod=mod", "GOPROXY=off", "GOSUMDB=off", "CGO_ENABLED=0",
	}
}

func loadMachine(spec Spec) *interp.Machine {
	ov, _ := buildOverlay()
	var pats []string
	for _, l := range spec.Load {
		pats = append(pats, l)
	}
	m, err := interp.Load(interp.Config{Dir: repoDir, Patterns: pats, Overlay: ov, Env: goEnv()})
	if err != nil {
		fatal(err)
	}
	var inits []string
	seen := map[string]bool{}
	for _, e := range spec.Entries {
		p := repoMod + "/" + e.Pkg
		if !seen[p] {
			seen[p] = true
			inits = append(inits, p)
		}
	}
	if err := m.InitPackages(inits); err != nil {
		fatal(err)
	}
	return m
}

// ---------------- worker ----------------

type workReq struct {
	Pkg    string         `json:"pkg"`
	Fn     string         `json:"fn"`
	Start  []string       `json:"start"`
	Budget int            `json:"budget"`
	Params map[string]int `json:"params"`
	Wit    int            `json:"wit"`
	Deadline int64        `json:"deadline"`
	Quit   bool           `json:"quit"`
}

type workRsp struct {
	Pending   []string         `json:"pending"`
	Stats     interp.Stats     `json:"stats"`
	Findings  []interp.Finding `json:"findings"`
	Witnesses []interp.Finding `json:"witnesses"`
	Samples   []string         `json:"samples"`
	Funcs     []string         `json:"funcs"`
	Stubs     []string         `json:"stubs"`
	SolverS   float64          `json:"solver_s"`
	WallS     float64          `json:"wall_s"`
	Err       string           `json:"err,omitempty"`
}

func encDecisions(ds []interp.Decision) string {
	var sb strings.Builder
	for _, d := range ds {
		fmt.Fprintf(&sb, "%c%d:%x ", d.Kind, d.Ch, d.Val)
	}
	return sb.String()
}

func decDecisions(s string) []interp.Decision {
	var out []interp.Decision
	for _, f := range strings.Fields(s) {
		var d interp.Decision
		d.Kind = f[0]
		fmt.Sscanf(f[1:], "%d:%x", &d.Ch, &d.Val)
		out = append(out, d)
	}
	return out
}

func workerMain(args []string) {
	if v := os.Getenv("GOSYM_STACKDUMP_AFTER"); v != "" {
		n, _ := strconv.Atoi(v)
		go func() {
			time.Sleep(time.Duration(n) * time.Second)
			buf := make([]byte, 1<<20)
			k := runtime.Stack(buf, true)
			os.Stderr.Write(buf[:k])
		}()
	}
	fs := flag.NewFlagSet("worker", flag.ExitOnError)
	id := fs.String("id", "", "check id")
	fs.Parse(args)
	spec := loadSpec(*id)
	if p := os.Getenv("GOSYM_PROF"); p != "" {
		f, _ := os.Create(fmt.Sprintf("%s.%d", p, os.Getpid()))
		pprof.StartCPUProfile(f)
		defer pprof.StopCPUProfile()
	}
	interp.SetFloatUF(spec.FloatUF)
	interp.SchedFocus = spec.Focus
	interp.SchedFocusFn = map[string]bool{}
	for _, f := range spec.FocusFuncs {
		interp.SchedFocusFn[f] = true
	}
	if spec.MaxPreempt != nil {
		interp.MaxPreempt = *spec.MaxPreempt
	}
	m := loadMachine(spec)
	ctx := interp.SmtCtx()
	solver, err := smt.NewSolver(ctx, spec.Solver, spec.Timeout)
	if err != nil {
		fatal(err)
	}
	defer func() { solver.Close() }()
	if p := os.Getenv("GOSYM_SMTLOG"); p != "" {
		f, _ := os.Create(fmt.Sprintf("%s.%d", p, os.Getpid()))
		solver.Log = f
	}
	reported := map[string]bool{}
	lastFn := ""
	in := bufio.NewReaderSize(os.Stdin, 1<<24)
	out := bufio.NewWriter(os.Stdout)
	fmt.Fprintln(out, "READY")
	out.Flush()
	for {
		line, err := in.ReadBytes('\n')
		if err != nil {
			return
		}
		var req workReq
		if err := json.Unmarshal(line, &req); err != nil {
			fatal(err)
		}
		if req.Quit {
			return
		}
		var start [][]interp.Decision
		for _, s := range req.Start {
			start = append(start, decDecisions(s))
		}
		if lastFn != "" && lastFn != req.Pkg+"."+req.Fn && interp.TermCount() > 2000 {
			// a new entry: start from a fresh term table and solver (the
			// definitions accumulated for the previous entry slow every query)
			solver.Close()
			interp.ResetTerms()
			solver, err = smt.NewSolver(interp.SmtCtx(), spec.Solver, spec.Timeout)
			if err != nil {
				fatal(err)
			}
		}
		lastFn = req.Pkg + "." + req.Fn
		var rsp workRsp
		func() {
			defer func() {
				if r := recover(); r != nil {
					rsp.Err = fmt.Sprint(r)
				}
			}()
			res := m.Explore(repoMod+"/"+req.Pkg, req.Fn, solver, interp.ExploreOpts{
				Start: start, MaxPaths: req.Budget, Params: req.Params, Witnesses: req.Wit, Deadline: time.Unix(req.Deadline, 0),
				MaxConc: spec.MaxConc, MaxInstr: spec.MaxInstr,
			})
			for _, p := range res.Pending {
				rsp.Pending = append(rsp.Pending, encDecisions(p))
			}
			rsp.Stats, rsp.Findings, rsp.Witnesses = res.Stats, res.Findings, res.Witnesses
			for _, f := range res.Funcs {
				if !reported[f] {
					reported[f] = true
					rsp.Funcs = append(rsp.Funcs, f)
				}
			}
			rsp.Samples = res.Samples
			rsp.SolverS, rsp.WallS = res.SolverS, res.WallS
			for k := range interp.IntrinsicsUsed {
				if !reported["stub:"+k] {
					reported["stub:"+k] = true
					rsp.Stubs = append(rsp.Stubs, k)
				}
			}
			sort.Strings(rsp.Stubs)
		}()
		if interp.TermCount() > 150000 {
			solver.Close()
			interp.ResetTerms()
			solver, err = smt.NewSolver(interp.SmtCtx(), spec.Solver, spec.Timeout)
			if err != nil {
				fatal(err)
			}
		}
		b, _ := json.Marshal(rsp)
		out.Write(b)
		out.WriteByte('\n')
		out.Flush()
	}
}

// ---------------- coordinator ----------------

type worker struct {
	cmd *exec.Cmd
	in  *bufio.Writer
	out *bufio.Reader
}

func startWorker(id string) (*worker, error) {
	self, _ := os.Executable()
	cmd := exec.Command(self, "worker", "-id", id)
	cmd.Stderr = os.Stderr
	cmd.Env = append(os.Environ(), "GOSYM_VERIF="+verifDir)
	ip, _ := cmd.StdinPipe()
	op, _ := cmd.StdoutPipe()
	if err := cmd.Start(); err != nil {
		return nil, err
	}
	w := &worker{cmd: cmd, in: bufio.NewWriter(ip), out: bufio.NewReaderSize(op, 1<<24)}
	l, err := w.out.ReadString('\n')
	if err != nil || strings.TrimSpace(l) != "READY" {
		cmd.Process.Kill()
		cmd.Wait()
		return nil, fmt.Errorf("worker failed to start (%q, %v)", l, err)
	}
	return w, nil
}

func (w *worker) do(req workReq) (workRsp, error) {
	b, _ := json.Marshal(req)
	w.in.Write(b)
	w.in.WriteByte('\n')
	if err := w.in.Flush(); err != nil {
		return workRsp{}, err
	}
	line, err := w.out.ReadBytes('\n')
	if err != nil {
		return workRsp{}, err
	}
	var rsp workRsp
	if err := json.Unmarshal(line, &rsp); err != nil {
		return workRsp{}, err
	}
	return rsp, nil
}

type entryResult struct {
	Entry     EntrySpec
	Stats     interp.Stats
	Findings  []interp.Finding
	Witnesses []interp.Finding
	Samples   []string
	Funcs     map[string]bool
	Stubs     map[string]bool
	SolverS   float64
	Inconcl   []string
	Params    map[string]int
}

func addStats(a *interp.Stats, b interp.Stats) {
	a.Paths += b.Paths
	a.PathsPruned += b.PathsPruned
	a.Forks += b.Forks
	a.Merged += b.Merged
	a.Discharged += b.Discharged
	a.Violated += b.Violated
	a.Inconclusive += b.Inconclusive
	a.QSat += b.QSat
	a.QUnsat += b.QUnsat
	a.QUnknown += b.QUnknown
	a.QFresh += b.QFresh
	a.Instrs += b.Instrs
	a.ConcreteAsserts += b.ConcreteAsserts
	if a.Covers == nil {
		a.Covers = map[string]int{}
	}
	for k, v := range b.Covers {
		a.Covers[k] += v
	}
	if a.AssertSites == nil {
		a.AssertSites = map[string]int{}
	}
	for k, v := range b.AssertSites {
		a.AssertSites[k] += v
	}
	for _, s := range b.Inconcl {
		if len(a.Inconcl) < 40 {
			a.Inconcl = append(a.Inconcl, s)
		}
	}
}

func hasTier(e EntrySpec, tier string) bool {
	if len(e.Tiers) == 0 {
		return true
	}
	for _, t := range e.Tiers {
		if t == tier {
			return true
		}
	}
	return false
}

func checkMain(args []string) {
	fs := flag.NewFlagSet("check", flag.ExitOnError)
	tier := fs.String("tier", "quick", "quick|thorough")
	jobs := fs.Int("j", 16, "worker processes")
	only := fs.String("only", "", "run only this entry function")
	verbose := fs.Bool("v", false, "verbose")
	noEvidence := fs.Bool("no-evidence", false, "do not write the evidence file")
	fs.IntVar(&maxFindingsPerEntry, "maxfind", 12, "distinct findings replayed per entry")
	if len(args) < 1 {
		fatal(fmt.Errorf("usage: gosym check <ID> [flags]"))
	}
	id := args[0]
	fs.Parse(args[1:])
	if t := os.Getenv("VERIF_TIER"); t == "quick" || t == "thorough" {
		if !isFlagSet(fs, "tier") {
			*tier = t
		}
	}
	spec := loadSpec(id)
	t0 := time.Now()
	ts := spec.Quick
	if *tier == "thorough" {
		ts = spec.Thorough
	}
	if ts.BudgetS == 0 {
		ts.BudgetS = 240
	}
	deadline := t0.Add(time.Duration(ts.BudgetS) * time.Second)

	var entries []EntrySpec
	for _, e := range spec.Entries {
		if hasTier(e, *tier) && (*only == "" || e.Fn == *only) {
			entries = append(entries, e)
		}
	}
	if len(entries) == 0 {
		fatal(fmt.Errorf("no entries for tier %s", *tier))
	}

	defer runPregen(spec)()

	// start workers
	nw := *jobs
	workers := make([]*worker, 0, nw)
	{
		var mu sync.Mutex
		var wg sync.WaitGroup
		var firstErr error
		for i := 0; i < nw; i++ {
			wg.Add(1)
			go func() {
				defer wg.Done()
				w, err := startWorker(id)
				mu.Lock()
				defer mu.Unlock()
				if err != nil {
					firstErr = err
					return
				}
				workers = append(workers, w)
			}()
			if i == 0 {
				wg.Wait() // first worker warms the go list / build cache
			}
		}
		wg.Wait()
		if len(workers) == 0 {
			fatal(fmt.Errorf("no worker started: %v", firstErr))
		}
	}
	defer func() {
		for _, w := range workers {
			w.cmd.Process.Kill()
			w.cmd.Wait()
		}
	}()

	// global work queue over all entries
	type item struct {
		ei     int
		prefix string
	}
	results := make([]*entryResult, len(entries))
	var queue []item
	for i, e := range entries {
		params := map[string]int{}
		for k, v := range ts.Params {
			params[k] = v
		}
		for k, v := range e.Params {
			if strings.HasPrefix(k, *tier+":") {
				params[strings.TrimPrefix(k, *tier+":")] = v
			} else if !strings.Contains(k, ":") {
				params[k] = v
			}
		}
		results[i] = &entryResult{Entry: e, Funcs: map[string]bool{}, Stubs: map[string]bool{}, Params: params}
		queue = append(queue, item{i, ""})
	}
	prefixKey := func(ei int, prefix string) string {
		f := strings.Fields(prefix)
		if len(f) > spec.PrefixDepth {
			f = f[:spec.PrefixDepth]
		}
		return fmt.Sprintf("%d|%s", ei, strings.Join(f, " "))
	}
	prefixPaths := map[string]int{}
	prefixCut := map[string]bool{}
	var mu sync.Mutex
	cond := sync.NewCond(&mu)
	active := 0
	timedOut := false
	// entries are explored one after the other, each within a fair share of
	// the remaining budget (otherwise a heavy entry starves the others); an
	// entry whose share runs out is resumed in a later round with what the
	// others left over
	order := make([]int, len(results))
	for i := range order {
		order[i] = i
	}
	pos := 0
	cur := order[0]
	var nextRound []int
	activeBy := make([]int, len(results))
	shareEnd := t0.Add(time.Duration(ts.BudgetS) * time.Second / time.Duration(len(results)))
	hasItems := func(ei int) bool {
		for i := len(queue) - 1; i >= 0; i-- {
			if queue[i].ei == ei {
				return true
			}
		}
		return false
	}
	advance := func() {
		for {
			has := hasItems(cur)
			if time.Now().Before(shareEnd) && (has || activeBy[cur] > 0) {
				return
			}
			if has || activeBy[cur] > 0 {
				if !time.Now().Before(deadline) {
					return // the global deadline handling takes over
				}
				nextRound = append(nextRound, cur) // out of share, work left
			}
			pos++
			if pos >= len(order) {
				if len(nextRound) == 0 {
					// nothing left anywhere (or only work in flight)
					pos = len(order) - 1
					return
				}
				order, nextRound, pos = nextRound, nil, 0
			}
			cur = order[pos]
			left := len(order) - pos
			shareEnd = time.Now().Add(time.Until(deadline) / time.Duration(left))
		}
	}
	// watchdog: a work item that overruns the budget (slow solver queries) is cut off
	watchdog := time.AfterFunc(time.Until(deadline)+25*time.Second, func() {
		mu.Lock()
		for _, r := range results {
			if len(r.Inconcl) < 3 {
				r.Inconcl = append(r.Inconcl, "time budget exhausted inside a work item (slow solver queries); workers stopped")
			}
			r.Stats.Inconclusive++
			break
		}
		mu.Unlock()
		for _, w := range workers {
			w.cmd.Process.Kill()
		}
	})
	defer watchdog.Stop()
	var wg sync.WaitGroup
	for _, w := range workers {
		wg.Add(1)
		go func(w *worker) {
			defer wg.Done()
			for {
				mu.Lock()
				curHas := func() int {
					for i := len(queue) - 1; i >= 0; i-- {
						if queue[i].ei == cur {
							return i
						}
					}
					return -1
				}
				n := -1
				for {
					advance()
					n = curHas()
					if n >= 0 || (len(queue) == 0 && active == 0) {
						break
					}
					if active == 0 {
						// only items of entries that can no longer run are left
						queue = nil
						break
					}
					cond.Wait()
				}
				if n < 0 {
					mu.Unlock()
					cond.Broadcast()
					return
				}
				if time.Now().After(deadline) {
					if !timedOut {
						timedOut = true
					}
					// drain: everything pending is inconclusive
					for _, it := range queue {
						r := results[it.ei]
						if len(r.Inconcl) < 5 {
							r.Inconcl = append(r.Inconcl, "time budget exhausted; unexplored prefix "+it.prefix)
						}
						r.Stats.Inconclusive++
					}
					queue = nil
					mu.Unlock()
					cond.Broadcast()
					return
				}
				// take up to a small batch of prefixes of the current entry (LIFO = depth first)
				it := queue[n]
				queue = append(queue[:n], queue[n+1:]...)
				if spec.PrefixBudget > 0 {
					k := prefixKey(it.ei, it.prefix)
					if prefixPaths[k] > spec.PrefixBudget {
						if !prefixCut[k] {
							prefixCut[k] = true
							r := results[it.ei]
							r.Inconcl = append(r.Inconcl, fmt.Sprintf("path budget %d exceeded under choice prefix [%s]: remaining paths of that case not explored", spec.PrefixBudget, strings.SplitN(k, "|", 2)[1]))
							r.Stats.Inconclusive++
						}
						mu.Unlock()
						cond.Broadcast()
						continue
					}
				}
				batch := []string{it.prefix}
				maxBatch := len(queue) / (2 * len(workers))
				if maxBatch > 512 {
					maxBatch = 512
				}
				for len(batch) < maxBatch && len(queue) > 0 && queue[len(queue)-1].ei == it.ei &&
					(spec.PrefixBudget == 0 || prefixKey(it.ei, queue[len(queue)-1].prefix) == prefixKey(it.ei, it.prefix)) {
					batch = append(batch, queue[len(queue)-1].prefix)
					queue = queue[:len(queue)-1]
				}
				active++
				activeBy[it.ei]++
				r := results[it.ei]
				wit := 0
				if len(r.Witnesses) < 2 {
					wit = 1
				}
				dl := deadline
				if shareEnd.Before(dl) {
					dl = shareEnd
				}
				mu.Unlock()
				budget := 40
				if 3*len(batch) > budget {
					budget = 3 * len(batch)
				}
				rsp, err := w.do(workReq{Pkg: r.Entry.Pkg, Fn: r.Entry.Fn, Start: batch, Budget: budget, Params: r.Params, Wit: wit, Deadline: dl.Unix()})
				mu.Lock()
				active--
				activeBy[it.ei]--
				if err != nil || rsp.Err != "" {
					msg := rsp.Err
					if err != nil {
						msg = err.Error()
					}
					r.Inconcl = append(r.Inconcl, "worker failure: "+msg)
					r.Stats.Inconclusive++
					mu.Unlock()
					cond.Broadcast()
					if err != nil {
						return
					}
					continue
				}
				for _, p := range rsp.Pending {
					queue = append(queue, item{it.ei, p})
				}
				addStats(&r.Stats, rsp.Stats)
				if spec.PrefixBudget > 0 {
					prefixPaths[prefixKey(it.ei, it.prefix)] += rsp.Stats.Paths
				}
				r.Findings = append(r.Findings, rsp.Findings...)
				if len(r.Witnesses) < 3 {
					r.Witnesses = append(r.Witnesses, rsp.Witnesses...)
				}
				if len(r.Samples) < 3 {
					r.Samples = append(r.Samples, rsp.Samples...)
				}
				for _, f := range rsp.Funcs {
					r.Funcs[f] = true
				}
				for _, f := range rsp.Stubs {
					r.Stubs[f] = true
				}
				r.SolverS += rsp.SolverS
				if *verbose {
					pre := batch[0]
					if len(pre) > 40 {
						pre = pre[:40]
					}
					fmt.Fprintf(os.Stderr, "[%s] +paths=%d +q=%d fresh=%d solver=%.2fs wall=%.2fs prefix=%s | total paths=%d queue=%d findings=%d\n", r.Entry.Fn, rsp.Stats.Paths,
						rsp.Stats.QSat+rsp.Stats.QUnsat+rsp.Stats.QUnknown, rsp.Stats.QFresh, rsp.SolverS, rsp.WallS, pre, r.Stats.Paths, len(queue), len(r.Findings))
				}
				mu.Unlock()
				cond.Broadcast()
			}
		}(w)
	}
	wg.Wait()

	finish(spec, *tier, entries, results, t0, *noEvidence, ts)
}

func isFlagSet(fs *flag.FlagSet, name string) bool {
	set := false
	fs.Visit(func(f *flag.Flag) {
		if f.Name == name {
			set = true
		}
	})
	return set
}

func sha(b []byte) string { return fmt.Sprintf("%x", sha256.Sum256(b))[:12] }

func main() {
	if v := os.Getenv("GOSYM_VERIF"); v != "" {
		verifDir = v
	}
	debug.SetGCPercent(400)
	debug.SetMemoryLimit(3 << 30)
	for _, kv := range goEnv() {
		i := strings.Index(kv, "=")
		os.Setenv(kv[:i], kv[i+1:])
	}
	if len(os.Args) < 2 {
		fmt.Fprintln(os.Stderr, "usage: gosym check|worker ...")
		os.Exit(2)
	}
	switch os.Args[1] {
	case "check":
		checkMain(os.Args[2:])
	case "maprange":
		mapRangeMain(os.Args[2:])
	case "worker":
		workerMain(os.Args[2:])
	case "replay":
		replayMain(os.Args[2:])
	default:
		fmt.Fprintln(os.Stderr, "unknown command", os.Args[1])
		os.Exit(2)
	}
}

// replayMain: gosym replay <ID> <replay.json> - runs a recorded vector against
// the native build of /repo (harness overlaid) and prints the verdict.
func replayMain(args []string) {
	if len(args) < 2 {
		fatal(fmt.Errorf("usage: gosym replay <ID> <replay.json>"))
	}
	spec := loadSpec(args[0])
	b, err := os.ReadFile(args[1])
	if err != nil {
		fatal(err)
	}
	var rf replayFile
	if err := json.Unmarshal(b, &rf); err != nil {
		fatal(err)
	}
	defer runPregen(spec)()
	rp := newReplayer(spec.Entries, spec.Focus, spec.FocusFuncs)
	defer rp.close()
	if rp.err != nil {
		fatal(rp.err)
	}
	v, _ := rp.run(rf)
	fmt.Println(v)
	if strings.HasPrefix(v, "REPLAY-FAIL") || strings.HasPrefix(v, "REPLAY-PANIC") || strings.HasPrefix(v, "REPLAY-CRASH") {
		fmt.Printf("VIOLATION property=%s replay=%s\n", spec.ID, args[1])
		rp.close()
		for _, c := range exitCleanups {
			c()
		}
		os.Exit(1)
	}
}
