package interp

// Intrinsics: the verif harness API and models of standard-library entry
// points that are not interpreted from source. Every entry is part of the
// trusted base of a check and is listed in its evidence ("stubs").

import (
	"fmt"
	"go/token"
	"go/types"
	"math"
	"sort"
	"strconv"
	"strings"

	"gosym/smt"
)

const verifPkg = repoMod + "/zzverif"

var IntrinsicsUsed = map[string]bool{}

func reg(name string, f externalFn) {
	externals[name] = func(fr *frame, args []value) value {
		IntrinsicsUsed[name] = true
		return f(fr, args)
	}
}

// native converts an interpreter value to something fmt can print.
func native(v value) any {
	switch v := v.(type) {
	case sym:
		return fmt.Sprintf("<sym%d>", v.e.ID)
	case iface:
		if v.t == nil {
			return nil
		}
		if v.t == errorType {
			return fmt.Errorf("%v", native(v.v))
		}
		return native(v.v)
	case structure:
		out := make([]any, len(v))
		for i := range v {
			out[i] = native(v[i])
		}
		return out
	case array:
		out := make([]any, len(v))
		for i := range v {
			out[i] = native(v[i])
		}
		return out
	case []value:
		allBytes := len(v) > 0
		for _, e := range v {
			if _, ok := e.(uint8); !ok {
				allBytes = false
				break
			}
		}
		if allBytes {
			b := make([]byte, len(v))
			for i, e := range v {
				b[i] = e.(uint8)
			}
			return b
		}
		out := make([]any, len(v))
		for i := range v {
			out[i] = native(v[i])
		}
		return out
	case *value:
		if v == nil {
			return "<nil>"
		}
		return fmt.Sprintf("%p", v)
	case *omap:
		return fmt.Sprintf("map[%d entries]", v.len())
	}
	return v
}

func nativeArgs(v value) []any {
	var out []any
	if v == nil {
		return nil
	}
	for _, a := range v.([]value) {
		out = append(out, native(a))
	}
	return out
}

func mkError(msg string) value { return iface{t: errorType, v: msg} }

func toBool(v value) *smt.Term { return lift(v) }

func init() {
	// ---------------- harness API ----------------
	draw := func(k types.BasicKind) externalFn {
		return func(fr *frame, args []value) value { return ex.fresh(k, k2name(k)) }
	}
	reg(verifPkg+".Bool", draw(types.Bool))
	reg(verifPkg+".U8", draw(types.Uint8))
	reg(verifPkg+".U16", draw(types.Uint16))
	reg(verifPkg+".U32", draw(types.Uint32))
	reg(verifPkg+".U64", draw(types.Uint64))
	reg(verifPkg+".I32", draw(types.Int32))
	reg(verifPkg+".I64", draw(types.Int64))
	reg(verifPkg+".Int", draw(types.Int))
	reg(verifPkg+".Choice", func(fr *frame, args []value) value {
		n := int(asInt64(args[0]))
		v := ex.choose(n)
		ex.recordChoice(n, v)
		return v
	})
	reg(verifPkg+".Bytes", func(fr *frame, args []value) value {
		n := int(asInt64(args[0]))
		out := make([]value, n)
		for i := range out {
			out[i] = ex.fresh(types.Uint8, "byte")
		}
		return out
	})
	reg(verifPkg+".Assume", func(fr *frame, args []value) value {
		ex.curFrame = fr.caller
		ex.assume(args[0])
		return nil
	})
	reg(verifPkg+".Assert", func(fr *frame, args []value) value {
		ex.curFrame = fr.caller
		site := "?"
		if fr.caller != nil {
			site = callSite(fr.caller)
		}
		ex.assert(args[0], site, args[1].(string))
		return nil
	})
	reg(verifPkg+".Holds", func(fr *frame, args []value) value {
		// true iff the condition is implied by the path condition (one query);
		// does not extend the path condition
		switch c := args[0].(type) {
		case bool:
			return c
		case sym:
			if ex.check(sctx.Not(c.e)) == smt.Unsat {
				ex.Stats.Discharged++
				return true
			}
			return false
		}
		return false
	})
	reg(verifPkg+".Fail", func(fr *frame, args []value) value {
		ex.curFrame = fr.caller
		ex.assert(false, callSite(fr.caller), args[0].(string))
		return nil
	})
	reg(verifPkg+".Cover", func(fr *frame, args []value) value {
		ex.Stats.Covers[args[0].(string)]++
		return nil
	})
	reg(verifPkg+".And", func(fr *frame, args []value) value { return symAnd(args[0], args[1]) })
	reg(verifPkg+".Or", func(fr *frame, args []value) value {
		return symNot(symAnd(symNot(args[0]), symNot(args[1])))
	})
	reg(verifPkg+".Implies", func(fr *frame, args []value) value {
		return symNot(symAnd(args[0], symNot(args[1])))
	})
	ite := func(fr *frame, args []value) value {
		c, ok := args[0].(sym)
		if !ok {
			if args[0].(bool) {
				return args[1]
			}
			return args[2]
		}
		v, ok2 := symIte(c.e, args[1], args[2])
		if !ok2 {
			panic(engineLimit{"verif.Ite on non-scalars"})
		}
		return v
	}
	reg(verifPkg+".Ite64", ite)
	reg(verifPkg+".Ite32", ite)
	reg(verifPkg+".Ite8", ite)
	reg(verifPkg+".IteInt", ite)
	reg(verifPkg+".IteBool", ite)
	reg(verifPkg+".Observe", func(fr *frame, args []value) value {
		ex.observes = append(ex.observes, args[0])
		return nil
	})
	reg(verifPkg+".MapOrder", func(fr *frame, args []value) value {
		on := args[0].(bool)
		old, oldp := MapOrderPermute, mapPolicy
		MapOrderPermute, mapPolicy = on, -1
		jundo(func() { MapOrderPermute, mapPolicy = old, oldp })
		return nil
	})
	reg(verifPkg+".PreemptBound", func(fr *frame, args []value) value {
		sched.maxPreempt = int(asInt64(args[0]))
		return nil
	})
	reg(verifPkg+".Param", func(fr *frame, args []value) value {
		v, ok := ex.Params[args[0].(string)]
		if !ok {
			return int(asInt64(args[1]))
		}
		return v
	})
	reg(verifPkg+".IsSymbolic", func(fr *frame, args []value) value { return true })
	reg(verifPkg+".Concretize", func(fr *frame, args []value) value {
		if s, ok := args[0].(sym); ok {
			return ex.concretize(s, "verif.Concretize")
		}
		return args[0]
	})

	// ---------------- log / fmt ----------------
	logPanic := func(fr *frame, args []value) value {
		var as []any
		if len(args) > 0 {
			as = nativeArgs(args[len(args)-1])
		}
		panic(targetPanic{iface{t: types.Typ[types.String], v: fmt.Sprint(as...)}})
	}
	logPanicf := func(fr *frame, args []value) value {
		panic(targetPanic{iface{t: types.Typ[types.String], v: fmt.Sprintf(args[0].(string), nativeArgs(args[1])...)}})
	}
	for _, n := range []string{"log.Panic", "log.Panicln", "log.Fatal", "log.Fatalln"} {
		reg(n, logPanic)
	}
	reg("log.Panicf", logPanicf)
	reg("log.Fatalf", logPanicf)
	nop := func(fr *frame, args []value) value { return nil }
	for _, n := range []string{"log.Print", "log.Printf", "log.Println", "fmt.Print", "fmt.Printf", "fmt.Println",
		"fmt.Fprintf", "fmt.Fprintln", "fmt.Fprint", "(*log.Logger).Printf", "(*log.Logger).Println", "log.SetFlags"} {
		n := n
		reg(n, func(fr *frame, args []value) value {
			if strings.HasPrefix(n, "fmt.F") || strings.HasPrefix(n, "fmt.P") {
				return tuple{0, iface{}}
			}
			return nil
		})
	}
	_ = nop
	reg("fmt.Sprintf", func(fr *frame, args []value) value {
		return fmt.Sprintf(args[0].(string), nativeArgs(args[1])...)
	})
	reg("fmt.Sprint", func(fr *frame, args []value) value { return fmt.Sprint(nativeArgs(args[0])...) })
	reg("fmt.Sprintln", func(fr *frame, args []value) value { return fmt.Sprintln(nativeArgs(args[0])...) })
	reg("fmt.Errorf", func(fr *frame, args []value) value {
		return mkError(fmt.Sprintf(strings.ReplaceAll(args[0].(string), "%w", "%v"), nativeArgs(args[1])...))
	})
	reg("errors.New", func(fr *frame, args []value) value {
		// distinct identity per call is not modelled (errors compared by == are rare here)
		return mkError(args[0].(string))
	})

	// ---------------- sync ----------------
	for _, n := range []string{"runtime.GC", "runtime.KeepAlive"} {
		reg(n, nop)
	}
	reg("(*sync.Mutex).Lock", func(fr *frame, args []value) value { sched.lock(fr.caller, args[0], "Lock"); return nil })
	reg("(*sync.Mutex).Unlock", func(fr *frame, args []value) value { sched.unlock(fr.caller, args[0], "Unlock"); return nil })
	reg("(*sync.RWMutex).Lock", func(fr *frame, args []value) value { sched.lock(fr.caller, args[0], "Lock"); return nil })
	reg("(*sync.RWMutex).Unlock", func(fr *frame, args []value) value { sched.unlock(fr.caller, args[0], "Unlock"); return nil })
	reg("(*sync.RWMutex).RLock", func(fr *frame, args []value) value { sched.rlock(fr.caller, args[0]); return nil })
	reg("(*sync.RWMutex).RUnlock", func(fr *frame, args []value) value { sched.runlock(fr.caller, args[0]); return nil })
	reg("(*sync.WaitGroup).Add", func(fr *frame, args []value) value {
		c := sched.wg(args[0])
		*c += int(asInt64(args[1]))
		if *c < 0 {
			panic(targetPanic{"sync: negative WaitGroup counter"})
		}
		return nil
	})
	reg("(*sync.WaitGroup).Done", func(fr *frame, args []value) value {
		c := sched.wg(args[0])
		*c--
		if *c < 0 {
			panic(targetPanic{"sync: negative WaitGroup counter"})
		}
		return nil
	})
	reg("(*sync.WaitGroup).Wait", func(fr *frame, args []value) value {
		c := sched.wg(args[0])
		sched.yield(fr.caller, "wg.Wait")
		sched.block(fr.caller, &parkedOp{what: "wg.Wait", ready: func() bool { return *c == 0 }})
		return nil
	})
	reg("runtime.Gosched", func(fr *frame, args []value) value { sched.yield(fr.caller, "Gosched"); return nil })
	reg("(*sync.Mutex).TryLock", func(fr *frame, args []value) value {
		m := sched.mutex(args[0])
		sched.yield(fr.caller, "TryLock")
		if m.locked || m.readers > 0 {
			return false
		}
		m.locked = true
		return true
	})
	reg("(*sync.Once).Do", func(fr *frame, args []value) value {
		// sync.Once{done atomic.Uint32 / uint32, m Mutex}: use field 0 as the flag
		o := (*args[0].(*value)).(structure)
		cell := &o[0]
		done := false
		switch d := (*cell).(type) {
		case structure: // atomic.Uint32{_ noCopy, v uint32}
			done = d[len(d)-1].(uint32) != 0
			if !done {
				jset(&d[len(d)-1], uint32(1))
			}
		case uint32:
			done = d != 0
			if !done {
				jset(cell, uint32(1))
			}
		default:
			panic(engineLimit{fmt.Sprintf("sync.Once layout %T", d)})
		}
		if !done {
			call(fr.i, fr, 0, args[1], nil)
		}
		return nil
	})
	// sync/atomic on plain integers and typed atomics
	atomAdd := func(fr *frame, args []value) value {
		p := args[0].(*value)
		k, _ := kindOf(*p)
		nv := binop(token.ADD, types.Typ[k], *p, args[1])
		jset(p, nv)
		return nv
	}
	for _, n := range []string{"AddInt32", "AddInt64", "AddUint32", "AddUint64", "AddUintptr"} {
		reg("sync/atomic."+n, atomAdd)
	}
	atomLoad := func(fr *frame, args []value) value { return *args[0].(*value) }
	for _, n := range []string{"LoadInt32", "LoadInt64", "LoadUint32", "LoadUint64", "LoadUintptr", "LoadPointer"} {
		reg("sync/atomic."+n, atomLoad)
	}
	atomStore := func(fr *frame, args []value) value { jset(args[0].(*value), args[1]); return nil }
	for _, n := range []string{"StoreInt32", "StoreInt64", "StoreUint32", "StoreUint64", "StoreUintptr"} {
		reg("sync/atomic."+n, atomStore)
	}
	atomCAS := func(fr *frame, args []value) value {
		p := args[0].(*value)
		if decide(symEquals(nil, *p, args[1])) {
			jset(p, args[2])
			return true
		}
		return false
	}
	for _, n := range []string{"CompareAndSwapInt32", "CompareAndSwapInt64", "CompareAndSwapUint32", "CompareAndSwapUint64"} {
		reg("sync/atomic."+n, atomCAS)
	}
	// typed atomics: struct{_ noCopy; [_ align64;] v T}: value is the last field
	lastField := func(v value) *value {
		s := (*v.(*value)).(structure)
		return &s[len(s)-1]
	}
	for _, T := range []string{"Int32", "Int64", "Uint32", "Uint64", "Uintptr", "Bool"} {
		T := T
		reg("(*sync/atomic."+T+").Load", func(fr *frame, args []value) value {
			v := *lastField(args[0])
			if T == "Bool" {
				return v.(uint32) != 0
			}
			return v
		})
		reg("(*sync/atomic."+T+").Store", func(fr *frame, args []value) value {
			v := args[1]
			if T == "Bool" {
				if decide(v) {
					v = uint32(1)
				} else {
					v = uint32(0)
				}
			}
			jset(lastField(args[0]), v)
			return nil
		})
		if T != "Bool" {
			reg("(*sync/atomic."+T+").Add", func(fr *frame, args []value) value {
				p := lastField(args[0])
				k, _ := kindOf(*p)
				nv := binop(token.ADD, types.Typ[k], *p, args[1])
				jset(p, nv)
				return nv
			})
			reg("(*sync/atomic."+T+").CompareAndSwap", func(fr *frame, args []value) value {
				p := lastField(args[0])
				if decide(symEquals(nil, *p, args[1])) {
					jset(p, args[2])
					return true
				}
				return false
			})
		}
	}

	// ---------------- math ----------------
	f64 := func(v value) *smt.Term { return lift(v) }
	reg("math.Float32bits", func(fr *frame, args []value) value {
		if s, ok := args[0].(sym); ok {
			return mkval(sctx.FpToBits(s.e), types.Uint32)
		}
		return math.Float32bits(args[0].(float32))
	})
	reg("math.Float64bits", func(fr *frame, args []value) value {
		if s, ok := args[0].(sym); ok {
			return mkval(sctx.FpToBits(s.e), types.Uint64)
		}
		return math.Float64bits(args[0].(float64))
	})
	reg("math.Float32frombits", func(fr *frame, args []value) value {
		if s, ok := args[0].(sym); ok {
			return mkval(sctx.FpFromBits(s.e), types.Float32)
		}
		return math.Float32frombits(args[0].(uint32))
	})
	reg("math.Float64frombits", func(fr *frame, args []value) value {
		if s, ok := args[0].(sym); ok {
			return mkval(sctx.FpFromBits(s.e), types.Float64)
		}
		return math.Float64frombits(args[0].(uint64))
	})
	un := func(name string, conc func(float64) float64, symf func(*smt.Term) *smt.Term) {
		reg("math."+name, func(fr *frame, args []value) value {
			if s, ok := args[0].(sym); ok {
				if symf == nil {
					return mkval(sctx.UF("uf_"+name, sctx.FSort(64), s.e), types.Float64)
				}
				return mkval(symf(s.e), types.Float64)
			}
			return conc(args[0].(float64))
		})
	}
	un("Sqrt", math.Sqrt, func(t *smt.Term) *smt.Term { return sctx.FpUn(smt.OFpSqrt, t) })
	un("Abs", math.Abs, func(t *smt.Term) *smt.Term { return sctx.FpUn(smt.OFpAbs, t) })
	un("Floor", math.Floor, func(t *smt.Term) *smt.Term { return sctx.FpRti(t, 3) })
	un("Ceil", math.Ceil, func(t *smt.Term) *smt.Term { return sctx.FpRti(t, 2) })
	un("Trunc", math.Trunc, func(t *smt.Term) *smt.Term { return sctx.FpRti(t, 1) })
	un("RoundToEven", math.RoundToEven, func(t *smt.Term) *smt.Term { return sctx.FpRti(t, 0) })
	un("Round", math.Round, func(t *smt.Term) *smt.Term { return sctx.FpRti(t, 4) })
	un("Exp2", math.Exp2, nil)
	un("Log2", math.Log2, nil)
	un("Exp", math.Exp, nil)
	un("Log", math.Log, nil)
	un("Sin", math.Sin, nil)
	un("Cos", math.Cos, nil)
	un("Log10", math.Log10, nil)
	reg("math.IsNaN", func(fr *frame, args []value) value {
		if s, ok := args[0].(sym); ok {
			return mkval(sctx.FpPred(smt.OFpIsNaN, s.e), types.Bool)
		}
		return math.IsNaN(args[0].(float64))
	})
	reg("math.IsInf", func(fr *frame, args []value) value {
		if s, ok := args[0].(sym); ok {
			sign := int(asInt64(args[1]))
			inf := sctx.FpPred(smt.OFpIsInf, s.e)
			neg := sctx.FpPred(smt.OFpIsNeg, s.e)
			switch {
			case sign > 0:
				return mkval(sctx.And(inf, sctx.Not(neg)), types.Bool)
			case sign < 0:
				return mkval(sctx.And(inf, neg), types.Bool)
			}
			return mkval(inf, types.Bool)
		}
		return math.IsInf(args[0].(float64), int(asInt64(args[1])))
	})
	reg("math.Signbit", func(fr *frame, args []value) value {
		if s, ok := args[0].(sym); ok {
			b := sctx.FpToBits(s.e)
			return mkval(sctx.Eq(sctx.Extract(b, 63, 63), sctx.BVC(1, 1)), types.Bool)
		}
		return math.Signbit(args[0].(float64))
	})
	reg("math.Inf", func(fr *frame, args []value) value { return math.Inf(int(asInt64(args[0]))) })
	reg("math.NaN", func(fr *frame, args []value) value { return math.NaN() })
	reg("math.Pow", func(fr *frame, args []value) value {
		if isSym(args[0]) || isSym(args[1]) {
			return mkval(sctx.UF("uf_Pow", sctx.FSort(64), f64(args[0]), f64(args[1])), types.Float64)
		}
		return math.Pow(args[0].(float64), args[1].(float64))
	})
	reg("math.Mod", func(fr *frame, args []value) value {
		if isSym(args[0]) || isSym(args[1]) {
			return mkval(sctx.UF("uf_Mod", sctx.FSort(64), f64(args[0]), f64(args[1])), types.Float64)
		}
		return math.Mod(args[0].(float64), args[1].(float64))
	})
	reg("math.Ldexp", func(fr *frame, args []value) value {
		if isSym(args[0]) || isSym(args[1]) {
			return mkval(sctx.UF("uf_Ldexp", sctx.FSort(64), f64(args[0]), lift(args[1])), types.Float64)
		}
		return math.Ldexp(args[0].(float64), args[1].(int))
	})
	reg("math.Frexp", func(fr *frame, args []value) value {
		if isSym(args[0]) {
			return tuple{mkval(sctx.UF("uf_Frexp_m", sctx.FSort(64), f64(args[0])), types.Float64),
				mkval(sctx.UF("uf_Frexp_e", smt.BV(64), f64(args[0])), types.Int)}
		}
		m, e := math.Frexp(args[0].(float64))
		return tuple{m, e}
	})
	reg("math.Min", func(fr *frame, args []value) value {
		if isSym(args[0]) || isSym(args[1]) {
			return goMinMax(f64(args[0]), f64(args[1]), true)
		}
		return math.Min(args[0].(float64), args[1].(float64))
	})
	reg("math.Max", func(fr *frame, args []value) value {
		if isSym(args[0]) || isSym(args[1]) {
			return goMinMax(f64(args[0]), f64(args[1]), false)
		}
		return math.Max(args[0].(float64), args[1].(float64))
	})
	reg("math.Copysign", func(fr *frame, args []value) value {
		if isSym(args[0]) || isSym(args[1]) {
			a, b := sctx.FpToBits(f64(args[0])), sctx.FpToBits(f64(args[1]))
			r := sctx.Concat(sctx.Extract(b, 63, 63), sctx.Extract(a, 62, 0))
			return mkval(sctx.FpFromBits(r), types.Float64)
		}
		return math.Copysign(args[0].(float64), args[1].(float64))
	})
	reg("math.FMA", func(fr *frame, args []value) value {
		if isSym(args[0]) || isSym(args[1]) || isSym(args[2]) {
			return mkval(sctx.FpFma(f64(args[0]), f64(args[1]), f64(args[2])), types.Float64)
		}
		return math.FMA(args[0].(float64), args[1].(float64), args[2].(float64))
	})

	// ---------------- sort / strings ----------------
	reg("sort.Slice", func(fr *frame, args []value) value {
		// args[0] is interface holding a slice; args[1] less func(i,j int) bool (interpreted)
		s := args[0].(iface).v.([]value)
		less := args[1]
		idx := make([]int, len(s))
		for i := range idx {
			idx[i] = i
		}
		// insertion sort through the interpreted comparator on the *current* slice:
		// emulate by repeatedly swapping in place (stable, O(n^2), n is small)
		for i := 1; i < len(s); i++ {
			for j := i; j > 0; j-- {
				if !decide(call(fr.i, fr, 0, less, []value{j, j - 1})) {
					break
				}
				a, b := s[j], s[j-1]
				jset(&s[j], b)
				jset(&s[j-1], a)
			}
		}
		return nil
	})
	reg("sort.SliceStable", externals["sort.Slice"])
	symSort := func(k types.BasicKind) externalFn {
		return func(fr *frame, args []value) value {
			s := args[0].([]value)
			for i := 1; i < len(s); i++ {
				for j := i; j > 0; j-- {
					if !decide(binop(token.LSS, types.Typ[k], s[j], s[j-1])) {
						break
					}
					a, b := s[j], s[j-1]
					jset(&s[j], b)
					jset(&s[j-1], a)
				}
			}
			return nil
		}
	}
	reg("sort.Ints", symSort(types.Int))
	reg("sort.Float64s", symSort(types.Float64))
	reg("sort.Strings", func(fr *frame, args []value) value {
		s := args[0].([]value)
		ss := make([]string, len(s))
		for i := range s {
			ss[i] = s[i].(string)
		}
		sort.Strings(ss)
		for i := range s {
			jset(&s[i], ss[i])
		}
		return nil
	})
	for _, n := range []string{"Bool", "Int", "Int64", "Uint", "Uint64", "String", "Float64", "Duration"} {
		reg("flag."+n, func(fr *frame, args []value) value {
			cell := new(value)
			*cell = args[1]
			return cell
		})
		reg("flag."+n+"Var", func(fr *frame, args []value) value {
			jset(args[0].(*value), args[2])
			return nil
		})
	}
	reg("strconv.Itoa", func(fr *frame, args []value) value { return strconv.Itoa(int(asInt64(args[0]))) })
	reg("strconv.FormatUint", func(fr *frame, args []value) value {
		return strconv.FormatUint(asUint64(args[0]), int(asInt64(args[1])))
	})
	reg("strconv.FormatInt", func(fr *frame, args []value) value {
		return strconv.FormatInt(asInt64(args[0]), int(asInt64(args[1])))
	})
	reg("strconv.Quote", func(fr *frame, args []value) value { return strconv.Quote(args[0].(string)) })
	reg("strconv.Atoi", func(fr *frame, args []value) value {
		v, err := strconv.Atoi(args[0].(string))
		if err != nil {
			return tuple{v, mkError(err.Error())}
		}
		return tuple{v, iface{}}
	})
	reg("strconv.ParseInt", func(fr *frame, args []value) value {
		v, err := strconv.ParseInt(args[0].(string), int(asInt64(args[1])), int(asInt64(args[2])))
		if err != nil {
			return tuple{v, mkError(err.Error())}
		}
		return tuple{v, iface{}}
	})
	reg("strconv.ParseUint", func(fr *frame, args []value) value {
		v, err := strconv.ParseUint(args[0].(string), int(asInt64(args[1])), int(asInt64(args[2])))
		if err != nil {
			return tuple{v, mkError(err.Error())}
		}
		return tuple{v, iface{}}
	})
	reg("github.com/tebeka/atexit.Register", nop)
	// rs/xid: unique ids (host name, pid, time, counter): a fixed id suffices
	reg("github.com/rs/xid.New", func(fr *frame, args []value) value {
		a := make(array, 12)
		for i := range a {
			a[i] = uint8(0)
		}
		return a
	})
	reg("(github.com/rs/xid.ID).String", func(fr *frame, args []value) value { return "xid0" })
	lr := "github.com/sirupsen/logrus"
	for _, n := range []string{"WithField", "WithFields", "WithError"} {
		reg(lr+"."+n, func(fr *frame, args []value) value { return (*value)(nil) })
		reg("(*"+lr+".Entry)."+n, func(fr *frame, args []value) value { return (*value)(nil) })
	}
	for _, n := range []string{"Info", "Infof", "Debug", "Debugf", "Warn", "Warnf", "Error", "Errorf", "Print", "Printf", "Println", "Infoln"} {
		reg("(*"+lr+".Entry)."+n, nop)
		reg(lr+"."+n, nop)
	}
	for _, n := range []string{"Panic", "Panicf", "Fatal", "Fatalf"} {
		reg("(*"+lr+".Entry)."+n, func(fr *frame, args []value) value {
			panic(targetPanic{iface{t: types.Typ[types.String], v: "logrus panic: " + fmt.Sprint(nativeArgs(args[len(args)-1])...)}})
		})
	}
	reg("flag.Parse", nop)
	reg("flag.Parsed", func(fr *frame, args []value) value { return true })
	reg("os.Getenv", func(fr *frame, args []value) value { return "" })
	reg("time.Now", func(fr *frame, args []value) value { panic(engineLimit{"time.Now"}) })
}


func k2name(k types.BasicKind) string { return types.Typ[k].Name() }

// goMinMax follows math.Min/Max special cases (NaN propagates, -0 < +0).
func goMinMax(a, b *smt.Term, isMin bool) value {
	c := sctx
	nan := c.Or(c.FpPred(smt.OFpIsNaN, a), c.FpPred(smt.OFpIsNaN, b))
	var pick *smt.Term
	bothZero := c.And(c.FpPred(smt.OFpIsZero, a), c.FpPred(smt.OFpIsZero, b))
	aneg := c.Eq(c.Extract(c.FpToBits(a), 63, 63), c.BVC(1, 1))
	if isMin {
		lt := c.FpCmp(smt.OFpLt, a, b)
		pick = c.Ite(bothZero, c.Ite(aneg, a, b), c.Ite(lt, a, b))
	} else {
		gt := c.FpCmp(smt.OFpLt, b, a)
		pick = c.Ite(bothZero, c.Ite(aneg, b, a), c.Ite(gt, a, b))
	}
	return mkval(c.Ite(nan, c.F64C(math.NaN()), pick), types.Float64)
}

func callSite(fr *frame) string {
	if fr == nil {
		return "?"
	}
	return posString(fr.i.prog.Fset, fr.pos)
}

func tokenADD() token.Token { return token.ADD }
