package interp

// Write journal: every mutation of a pre-existing heap cell is recorded so
// that the heap can be rolled back to the post-initialisation snapshot
// between paths (re-execution DFS) and between the two arms of a merged
// branch.

type jentry struct {
	p    *value
	old  value
	undo func()
}

var journal []jentry
var journalOn bool

func jset(p *value, v value) {
	if journalOn {
		journal = append(journal, jentry{p: p, old: *p})
	}
	*p = v
}

func jundo(f func()) {
	if journalOn {
		journal = append(journal, jentry{undo: f})
	}
}

func jmark() int { return len(journal) }

func jrollback(mark int) {
	for i := len(journal) - 1; i >= mark; i-- {
		e := journal[i]
		if e.undo != nil {
			e.undo()
		} else {
			*e.p = e.old
		}
		journal[i] = jentry{}
	}
	journal = journal[:mark]
}
