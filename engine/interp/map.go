// Copyright 2013 The Go Authors. All rights reserved.
// Use of this source code is governed by a BSD-style
// license that can be found in the LICENSE file.

package interp

// Ordered, journaled hashtable used for every Go map (gosym change: the
// upstream interpreter used native Go maps, whose iteration order is random;
// re-execution needs determinism, and keys may be symbolic).

import (
	"go/types"
	"sort"
)


type hashable interface {
	hash(t types.Type) int
	eq(t types.Type, x any) bool
}

type oent struct {
	key     value
	val     value
	deleted bool
	symKey  bool
}

type omap struct {
	keyType types.Type
	ents    []*oent
	idx     map[int][]*oent // concrete keys only
	n       int
	nsym    int // live entries with symbolic keys
}

func makeMap(kt types.Type, reserve int64) value {
	return &omap{keyType: kt, idx: map[int][]*oent{}}
}

func (m *omap) len() int {
	if m == nil {
		return 0
	}
	return m.n
}

// find returns the entry for key k (forking on symbolic equalities).
func (m *omap) find(k value) *oent {
	if m == nil {
		return nil
	}
	if s, ok := k.(sym); ok && m.n > 6 && m.nsym == 0 {
		// large map, symbolic scalar key: first decide "is the key present at
		// all" (one disjunction), then enumerate the feasible present keys,
		// instead of forking on equality per entry
		present := sctx.False
		if kindIsInt(s.k) {
			// compress the concrete keys into value ranges
			var ks []uint64
			for _, e := range m.ents {
				if !e.deleted {
					ks = append(ks, lift(e.key).C)
				}
			}
			sort.Slice(ks, func(i, j int) bool { return ks[i] < ks[j] })
			w := s.e.S.W
			for i := 0; i < len(ks); {
				j := i
				for j+1 < len(ks) && ks[j+1] == ks[j]+1 {
					j++
				}
				if i == j {
					present = sctx.Or(present, sctx.Eq(s.e, sctx.BVC(ks[i], w)))
				} else {
					present = sctx.Or(present, sctx.And(sctx.BvUle(sctx.BVC(ks[i], w), s.e), sctx.BvUle(s.e, sctx.BVC(ks[j], w))))
				}
				i = j + 1
			}
		} else {
			for _, e := range m.ents {
				if !e.deleted {
					present = sctx.Or(present, sctx.Eq(s.e, lift(e.key)))
				}
			}
		}
		if !ex.branch(present) {
			return nil
		}
		k = ex.concretize(s, "map key")
	}
	if !hasSym(k) {
		h := hash(m.keyType, m.keyType, k)
		for _, e := range m.idx[h] {
			if !e.deleted && equals(m.keyType, k, e.key) {
				return e
			}
		}
		if m.nsym == 0 {
			return nil
		}
		for _, e := range m.ents {
			if !e.deleted && e.symKey && decide(symEquals(m.keyType, k, e.key)) {
				return e
			}
		}
		return nil
	}
	for _, e := range m.ents {
		if !e.deleted && decide(symEquals(m.keyType, k, e.key)) {
			return e
		}
	}
	return nil
}

func (m *omap) lookup(k value) (value, bool) {
	if e := m.find(k); e != nil {
		return e.val, true
	}
	return nil, false
}

func (m *omap) insert(k, v value) {
	if e := m.find(k); e != nil {
		old := e.val
		e.val = v
		jundo(func() { e.val = old })
		return
	}
	e := &oent{key: k, val: v, symKey: hasSym(k)}
	m.ents = append(m.ents, e)
	m.n++
	if e.symKey {
		m.nsym++
		jundo(func() { m.ents = m.ents[:len(m.ents)-1]; m.n--; m.nsym-- })
	} else {
		h := hash(m.keyType, m.keyType, k)
		m.idx[h] = append(m.idx[h], e)
		jundo(func() {
			m.ents = m.ents[:len(m.ents)-1]
			m.n--
			b := m.idx[h]
			m.idx[h] = b[:len(b)-1]
		})
	}
}

func (m *omap) delete(k value) {
	e := m.find(k)
	if e == nil {
		return
	}
	e.deleted = true
	m.n--
	if e.symKey {
		m.nsym--
	}
	jundo(func() {
		e.deleted = false
		m.n++
		if e.symKey {
			m.nsym++
		}
	})
}

type omapIter struct {
	m    *omap
	pos  int
	keys []*oent
}

// Go semantics: entries deleted during iteration are not produced; entries
// added may or may not be. We snapshot the entry list at range start.
func newOmapIter(m *omap) *omapIter {
	it := &omapIter{m: m}
	if m != nil {
		for _, e := range m.ents {
			if !e.deleted {
				it.keys = append(it.keys, e)
			}
		}
	}
	if MapOrderPermute && len(it.keys) > 1 {
		it.keys = permuteEntries(it.keys)
	}
	return it
}

// MapOrderPermute (toggled by verif.MapOrder): map ranges iterate in a
// permuted order. The permutation policy (a rotation by 0..3 entries, forwards
// or backwards: Go iterates from a random position and wraps around) is one
// environment choice per MapOrder(true) section, made at the first map range
// that has more than one entry and applied to every range of the section; it
// yields every permutation of maps with up to 3 entries and 8 of the 24 of
// 4-entry maps.
var MapOrderPermute bool
var mapPolicy = -1

func permuteEntries(keys []*oent) []*oent {
	n := len(keys)
	if mapPolicy < 0 {
		p := ex.choose(8)
		old := mapPolicy
		mapPolicy = p
		jundo(func() { mapPolicy = old })
	}
	rot, rev := (mapPolicy%4)%n, mapPolicy >= 4
	out := make([]*oent, 0, n)
	for i := 0; i < n; i++ {
		j := (rot + i) % n
		if rev {
			j = (rot - i + 2*n) % n
		}
		out = append(out, keys[j])
	}
	return out
}

func (it *omapIter) next() tuple {
	for it.pos < len(it.keys) {
		e := it.keys[it.pos]
		it.pos++
		if !e.deleted {
			return tuple{true, e.key, e.val}
		}
	}
	return tuple{false, nil, nil}
}
