package interp

// Cooperative goroutine scheduler. Interpreted goroutines run as real Go
// goroutines, but exactly one holds the baton at any time; every
// synchronisation operation (channel send/receive/select/close, mutex
// lock/unlock, WaitGroup, go, goroutine exit) parks the running thread and
// lets the explorer choose which enabled thread continues. The choices are
// ordinary 'c' decisions of the path, so re-execution reproduces a schedule
// and the DFS enumerates all schedules (within the preemption bound).
//
// Channels, mutexes and wait groups are modelled here (not Go's own), so that
// "enabled" is a predicate the scheduler can evaluate: a path with no enabled
// thread while the main thread has not returned is a deadlock finding.
//
// Only synchronisation inside "focus" packages (spec: "focus") offers a choice;
// elsewhere an enabled operation simply proceeds (library code is atomic
// between its blocking points).

import (
	"fmt"
	"os"
	"go/types"
	"strings"

	"golang.org/x/tools/go/ssa"
)

type ichan struct {
	id     int
	cap    int
	buf    []value
	closed bool
}

type selCase struct {
	ch   *ichan
	send bool
	val  value
}

type parkedOp struct {
	what    string
	isYield bool // a scheduling point before an operation (the thread is not blocked)
	ready   func() bool
	cases   []selCase // channel operations this op offers to counterparts
	done    bool      // completed by a counterpart while parked
	chosen  int
	recvVal value
	recvOk  bool
}

type thread struct {
	id       int
	wake     chan struct{}
	op       *parkedOp
	finished bool
	name     string
}

type mstate struct {
	locked  bool
	readers int
}

type scheduler struct {
	threads     []*thread
	cur         *thread
	crash       any
	abort       bool
	dead        chan int
	mutexes     map[*value]*mstate
	wgs         map[*value]*int
	nchan       int
	preemptions int
	maxPreempt  int
	switches    []SchedStep // schedule log (for reports / native replay)
}

var (
	schedTrace   = os.Getenv("GOSYM_SCHEDTRACE") != ""
	sched        *scheduler
	SchedFocus   []string // package paths whose sync operations are scheduling points
	SchedFocusFn map[string]bool // additional single functions (ssa full names)
	MaxPreempt   = 2
	threadsUsed  bool
)

func newScheduler() *scheduler {
	s := &scheduler{maxPreempt: MaxPreempt, dead: make(chan int, 64), mutexes: map[*value]*mstate{}, wgs: map[*value]*int{}}
	main := &thread{id: 0, wake: make(chan struct{}, 1), name: "main"}
	s.threads = []*thread{main}
	s.cur = main
	return s
}

func inFocus(fr *frame) bool {
	if fr == nil || fr.fn == nil {
		return false
	}
	// the function whose code performs the operation; intrinsics (Lock etc.)
	// are called with the caller's frame
	f := fr.fn
	if len(SchedFocusFn) > 0 && SchedFocusFn[f.String()] {
		return true
	}
	if f.Pkg == nil {
		if f.Parent() != nil {
			f = f.Parent()
		}
		if f.Pkg == nil && f.Origin() != nil {
			f = f.Origin()
		}
	}
	for p := f; p != nil; p = p.Parent() {
		if p.Pkg != nil {
			path := p.Pkg.Pkg.Path()
			for _, pre := range SchedFocus {
				if path == pre || (strings.HasSuffix(pre, "/...") && strings.HasPrefix(path, strings.TrimSuffix(pre, "..."))) {
					return true
				}
			}
			return false
		}
	}
	return false
}

func (s *scheduler) enabled(t *thread) bool {
	return !t.finished && t.op != nil && (t.op.done || t.op.ready())
}

// yield is a scheduling point before a synchronisation operation of a focus
// package: the thread offers nothing to counterparts yet (it has not begun
// to block), any enabled thread may run.
func (s *scheduler) yield(fr *frame, what string) {
	if !inFocus(fr) {
		return
	}
	t := s.cur
	if schedTrace {
		fmt.Fprintf(os.Stderr, "YIELD %s in %s\n", what, fr.fn)
	}
	t.op = &parkedOp{what: what, isYield: true, ready: func() bool { return true }}
	s.dispatch(t, true, fr)
	t.op = nil
}

// block performs the blocking part of an operation: if op cannot complete
// now, the thread parks offering op's channel cases to counterparts, and
// other threads run until op is enabled (or was completed by a counterpart:
// op.done).
func (s *scheduler) block(fr *frame, op *parkedOp) {
	t := s.cur
	if op.ready() {
		return
	}
	t.op = op
	s.dispatch(t, true, fr)
	t.op = nil
}

// dispatch chooses the next thread. t is the calling thread (parked at t.op,
// or finished).
func (s *scheduler) dispatch(t *thread, focus bool, fr *frame) {
	var en []*thread
	if s.enabled(t) {
		en = append(en, t) // choice 0 = keep running (no preemption)
	}
	for _, u := range s.threads {
		if u != t && s.enabled(u) {
			en = append(en, u)
		}
	}
	if len(en) == 0 {
		s.deadlock(t, fr)
		return
	}
	k := 0
	if len(en) > 1 {
		if en[0] == t && s.preemptions >= s.maxPreempt {
			k = 0
		} else {
			if fr != nil {
				ex.curFrame = fr
			}
			k = ex.choose(len(en))
			if en[0] == t && k != 0 {
				s.preemptions++
			}
		}
	}
	next := en[k]
	if len(s.switches) < 5000 {
		st := SchedStep{T: next.id}
		if next.op != nil {
			st.What, st.Yield = next.op.what, next.op.isYield
		}
		s.switches = append(s.switches, st)
	}
	if schedTrace {
		fmt.Fprintf(os.Stderr, "SCHED cur=T%d -> T%d (%d enabled) | %s\n", t.id, next.id, len(en), s.describe())
	}
	if next == t {
		return
	}
	s.cur = next
	next.wake <- struct{}{}
	if t.finished {
		return
	}
	s.waitBaton(t)
}

func (s *scheduler) waitBaton(t *thread) {
	<-t.wake
	if s.abort && t.id != 0 {
		panic(pathAbort{"thread killed at path end"})
	}
	if t.id == 0 && s.crash != nil {
		c := s.crash
		s.crash = nil
		panic(c)
	}
}

func (s *scheduler) describe() string {
	var sb strings.Builder
	for _, u := range s.threads {
		st := "running"
		if u.finished {
			st = "finished"
		} else if u.op != nil {
			st = "blocked at " + u.op.what
		}
		fmt.Fprintf(&sb, "T%d(%s) %s; ", u.id, u.name, st)
	}
	return sb.String()
}

// deadlock: no thread can run and the main thread has not returned.
func (s *scheduler) deadlock(t *thread, fr *frame) {
	msg := "deadlock: every goroutine is blocked: " + s.describe()
	if t.id == 0 {
		panic(deadlockPanic{msg})
	}
	// hand the verdict to the main thread, which is parked
	s.crash = deadlockPanic{msg}
	main := s.threads[0]
	s.cur = main
	main.wake <- struct{}{}
	if t.finished {
		return
	}
	s.waitBaton(t)
}

type deadlockPanic struct{ msg string }

// SchedStep is one scheduling decision: thread T continues, either from a
// scheduling point (Yield) or from the operation it was blocked in.
type SchedStep struct {
	T     int    `json:"t"`
	Yield bool   `json:"y"`
	What  string `json:"w"`
}

// spawn creates a thread for a go statement.
func (s *scheduler) spawn(fr *frame, run func()) {
	u := &thread{id: len(s.threads), wake: make(chan struct{}, 1)}
	u.name = "go@" + fr.fn.Name()
	u.op = &parkedOp{what: "start", isYield: true, ready: func() bool { return true }}
	s.threads = append(s.threads, u)
	go func() {
		<-u.wake // first scheduling of u, or teardown
		if s.abort {
			s.dead <- u.id
			return
		}
		var r any
		func() {
			defer func() { r = recover() }()
			u.op = nil
			run()
		}()
		u.finished = true
		u.op = nil
		if s.abort { // killed during teardown
			s.dead <- u.id
			return
		}
		if r != nil {
			// a panic in any goroutine ends the program (and engine control
			// flow such as a pruned path must end the path): raise it in main
			s.crash = r
			main := s.threads[0]
			s.cur = main
			main.wake <- struct{}{}
		} else {
			s.dispatch(u, true, nil)
		}
		<-u.wake // teardown
		s.dead <- u.id
	}()
	// (no scheduling point after the go statement itself: the parent's next
	// synchronisation operation offers the same alternatives)
}

// teardown kills every thread that is still parked (called on the main
// goroutine when the path ends, normally or not).
func (s *scheduler) teardown() {
	s.abort = true
	n := 0
	for _, u := range s.threads[1:] {
		n++
		u.wake <- struct{}{}
	}
	for i := 0; i < n; i++ {
		<-s.dead
	}
}

// ---------- channel operations ----------

func (s *scheduler) parkedPeer(self *thread, ch *ichan, wantSend bool) (*thread, int) {
	for _, u := range s.threads {
		if u == self || u.finished || u.op == nil || u.op.done {
			continue
		}
		for i, c := range u.op.cases {
			if c.ch == ch && c.send == wantSend {
				return u, i
			}
		}
	}
	return nil, 0
}

func (s *scheduler) caseReady(self *thread, c selCase) bool {
	if c.ch == nil {
		return false
	}
	if c.send {
		if c.ch.closed || len(c.ch.buf) < c.ch.cap {
			return true
		}
		u, _ := s.parkedPeer(self, c.ch, false)
		return u != nil
	}
	if len(c.ch.buf) > 0 || c.ch.closed {
		return true
	}
	u, _ := s.parkedPeer(self, c.ch, true)
	return u != nil
}

// perform executes an enabled channel case of the current thread.
func (s *scheduler) perform(c selCase) (v value, ok bool) {
	ch := c.ch
	self := s.cur
	if c.send {
		if ch.closed {
			panic(targetPanic{"send on closed channel"})
		}
		if len(ch.buf) == 0 {
			if u, i := s.parkedPeer(self, ch, false); u != nil {
				u.op.done, u.op.chosen, u.op.recvVal, u.op.recvOk = true, i, c.val, true
				return nil, true
			}
		}
		if len(ch.buf) < ch.cap {
			ch.buf = append(ch.buf, c.val)
			return nil, true
		}
		panic(engineLimit{"send performed while not enabled"})
	}
	if len(ch.buf) > 0 {
		v = ch.buf[0]
		ch.buf = ch.buf[1:]
		if u, i := s.parkedPeer(self, ch, true); u != nil { // a sender waiting for room
			ch.buf = append(ch.buf, u.op.cases[i].val)
			u.op.done, u.op.chosen = true, i
		}
		return v, true
	}
	if u, i := s.parkedPeer(self, ch, true); u != nil {
		v = u.op.cases[i].val
		u.op.done, u.op.chosen = true, i
		return v, true
	}
	if ch.closed {
		return nil, false
	}
	panic(engineLimit{"receive performed while not enabled"})
}

func (s *scheduler) send(fr *frame, ch *ichan, v value) {
	c := selCase{ch: ch, send: true, val: v}
	op := &parkedOp{what: "send", cases: []selCase{c}}
	self := s.cur
	op.ready = func() bool { return s.caseReady(self, c) }
	s.yield(fr, op.what)
	s.block(fr, op)
	if op.done {
		return
	}
	s.perform(c)
}

func (s *scheduler) recv(fr *frame, ch *ichan) (value, bool) {
	c := selCase{ch: ch}
	op := &parkedOp{what: "recv", cases: []selCase{c}}
	self := s.cur
	op.ready = func() bool { return s.caseReady(self, c) }
	s.yield(fr, op.what)
	s.block(fr, op)
	if op.done {
		return op.recvVal, op.recvOk
	}
	return s.perform(c)
}

func chID(ch *ichan) int {
	if ch == nil {
		return -1
	}
	return ch.id
}

// sel executes a select; returns the chosen case (-1: default), the received
// value and ok.
func (s *scheduler) sel(fr *frame, cases []selCase, blocking bool) (int, value, bool) {
	op := &parkedOp{what: "select", cases: cases}
	self := s.cur
	op.ready = func() bool {
		if !blocking {
			return true
		}
		for _, c := range cases {
			if s.caseReady(self, c) {
				return true
			}
		}
		return false
	}
	s.yield(fr, op.what)
	if blocking {
		s.block(fr, op)
	}
	if op.done {
		return op.chosen, op.recvVal, op.recvOk
	}
	var rdy []int
	for i, c := range cases {
		if s.caseReady(self, c) {
			rdy = append(rdy, i)
		}
	}
	if len(rdy) == 0 {
		if blocking {
			panic(engineLimit{"select performed while not enabled"})
		}
		return -1, nil, false
	}
	k := 0
	if len(rdy) > 1 && inFocus(fr) {
		ex.curFrame = fr
		k = ex.choose(len(rdy)) // Go picks uniformly among ready cases
	}
	i := rdy[k]
	v, ok := s.perform(cases[i])
	return i, v, ok
}

func (s *scheduler) closeChan(fr *frame, ch *ichan) {
	if ch == nil {
		panic(targetPanic{"close of nil channel"})
	}
	s.yield(fr, "close")
	if ch.closed {
		panic(targetPanic{"close of closed channel"})
	}
	ch.closed = true
	// parked senders panic when they resume (perform checks closed); parked
	// receivers become enabled through caseReady
}

// ---------- mutexes / wait groups ----------

func (s *scheduler) mutex(p value) *mstate {
	k, ok := p.(*value)
	if !ok {
		panic(engineLimit{fmt.Sprintf("mutex receiver %T", p)})
	}
	m := s.mutexes[k]
	if m == nil {
		m = &mstate{}
		s.mutexes[k] = m
	}
	return m
}

func (s *scheduler) lock(fr *frame, p value, name string) {
	m := s.mutex(p)
	s.yield(fr, name)
	s.block(fr, &parkedOp{what: name, ready: func() bool { return !m.locked && m.readers == 0 }})
	m.locked = true
}

func (s *scheduler) unlock(fr *frame, p value, name string) {
	m := s.mutex(p)
	if !m.locked {
		panic(targetPanic{"sync: unlock of unlocked mutex"})
	}
	m.locked = false
	// no scheduling point after a release: the thread's next synchronisation
	// operation offers the same alternatives (sync-point reduction, assuming
	// data-race freedom between synchronisation operations)
}

func (s *scheduler) rlock(fr *frame, p value) {
	m := s.mutex(p)
	s.yield(fr, "RLock")
	s.block(fr, &parkedOp{what: "RLock", ready: func() bool { return !m.locked }})
	m.readers++
}

func (s *scheduler) runlock(fr *frame, p value) {
	m := s.mutex(p)
	if m.readers == 0 {
		panic(targetPanic{"sync: RUnlock of unlocked RWMutex"})
	}
	m.readers--
}

func (s *scheduler) wg(p value) *int {
	k, ok := p.(*value)
	if !ok {
		panic(engineLimit{fmt.Sprintf("WaitGroup receiver %T", p)})
	}
	c := s.wgs[k]
	if c == nil {
		c = new(int)
		s.wgs[k] = c
	}
	return c
}

func elemZero(t types.Type) value { return zero(t.Underlying().(*types.Chan).Elem()) }

var _ = ssa.NaiveForm
