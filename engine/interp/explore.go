package interp

// Explorer: re-execution DFS with a decision log, feasibility checks,
// obligations (Assert / panic reachability), concretisation forks.

import (
	"fmt"
	"go/token"
	"go/types"
	"sort"
	"strings"

	"gosym/smt"
)

// A Decision is one entry of the decision log.
type Decision struct {
	Kind byte   // 'b' branch, 'c' choice, 'v' concretisation
	Ch   int    // branch: 0 true / 1 false; choice: index; concretisation: 0 eq / 1 neq
	Val  uint64 // concretisation value
}

// Draw is one symbolic input in draw order.
type Draw struct {
	Name string
	Bits int
	Term *smt.Term // nil for explorer choices
	Val  uint64    // choice value (for Kind choice)
}

// control-flow panics of the engine itself
type pathAbort struct{ reason string } // infeasible / pruned path: silent
type engineLimit struct{ msg string }  // unsupported construct: path inconclusive

// Finding is a violated obligation with a model.
type Finding struct {
	Kind    string   `json:"kind"` // assert | panic
	Site    string   `json:"site"`
	Msg     string   `json:"msg"`
	Entry   string   `json:"entry"`
	Vector  []uint64 `json:"vector"`
	Names   []string `json:"names"`
	Trace   string   `json:"trace"`
	Stack   []string `json:"stack,omitempty"`
	Observed []uint64 `json:"observed,omitempty"`
	Params  map[string]int `json:"params,omitempty"`
	Sched   []SchedStep `json:"sched,omitempty"`
	Covered []string `json:"-"`
}

type Stats struct {
	Paths, PathsPruned, Forks, Merged          int
	Discharged, Violated, Inconclusive         int
	QSat, QUnsat, QUnknown                     int
	QFresh                                     int
	Covers                                     map[string]int
	AssertSites                                map[string]int
	Inconcl                                    []string
	Instrs                                     int64
	ConcreteAsserts                            int
}

type Explorer struct {
	Solver *smt.Solver
	Stats  Stats
	Entry  string

	pc      []*smt.Term
	prefix  []Decision
	trace   []Decision
	pending [][]Decision
	draws   []Draw
	ndraw   int

	Findings []Finding
	MaxConc  int // concretisation fan-out limit
	MaxDepth int // decision depth limit
	MaxInstr int64
	instrs   int64

	// implied: conditions whose value the path condition already fixes
	// (term ID -> value). The path condition only grows along a path, so an
	// entry stays valid until resetPath.
	implied map[int]bool

	FuncsSeen map[string]bool
	Params    map[string]int
	observes  []value
	Witnesses []Finding // satisfying vectors of completed paths (for native cross-validation)
	WantWit   int
	Samples   []string
	curFrame  *frame
}

var ex *Explorer

func newExplorer(s *smt.Solver) *Explorer {
	return &Explorer{Solver: s, MaxConc: 64, MaxDepth: 4000, MaxInstr: 50_000_000,
		FuncsSeen: map[string]bool{},
		Stats:     Stats{Covers: map[string]int{}, AssertSites: map[string]int{}}}
}

func (e *Explorer) resetPath(prefix []Decision) {
	e.pc = e.pc[:0]
	e.prefix = prefix
	e.trace = e.trace[:0]
	e.draws = e.draws[:0]
	e.ndraw = 0
	e.instrs = 0
	e.observes = e.observes[:0]
	e.implied = map[int]bool{}
	MapOrderPermute, mapPolicy = false, -1
}

func (e *Explorer) known(cond *smt.Term) (val, ok bool) {
	if cond.Op == smt.ONot {
		v, ok := e.implied[cond.Args[0].ID]
		return !v, ok
	}
	v, ok := e.implied[cond.ID]
	return v, ok
}

func (e *Explorer) learn(cond *smt.Term, val bool) {
	if cond.Op == smt.ONot {
		cond, val = cond.Args[0], !val
	}
	if e.implied == nil {
		e.implied = map[int]bool{}
	}
	e.implied[cond.ID] = val
}

func (e *Explorer) check(extra ...*smt.Term) smt.Result {
	as := append(append([]*smt.Term{}, e.pc...), extra...)
	r, _ := e.Solver.Check(as, nil)
	return r
}

func (e *Explorer) inconclusive(msg string) {
	e.Stats.Inconclusive++
	if len(e.Stats.Inconcl) < 50 {
		e.Stats.Inconcl = append(e.Stats.Inconcl, msg)
	}
}

func (e *Explorer) addPC(t *smt.Term) {
	if t.IsConst() {
		return
	}
	e.pc = append(e.pc, t)
}

func (e *Explorer) pushAlt(d Decision) {
	alt := make([]Decision, len(e.trace)+1)
	copy(alt, e.trace)
	alt[len(e.trace)] = d
	e.pending = append(e.pending, alt)
	e.Stats.Forks++
}

// branch decides a symbolic condition, forking when both arms are feasible.
func (e *Explorer) branch(cond *smt.Term) bool {
	if cond.IsConst() {
		return cond.C != 0
	}
	k := len(e.trace)
	if k < len(e.prefix) {
		d := e.prefix[k]
		if d.Kind != 'b' {
			panic(engineLimit{fmt.Sprintf("decision log mismatch at %d: want branch, have %c", k, d.Kind)})
		}
		e.trace = append(e.trace, d)
		if _, ok := e.known(cond); !ok {
			if d.Ch == 0 {
				e.addPC(cond)
			} else {
				e.addPC(sctx.Not(cond))
			}
			e.learn(cond, d.Ch == 0)
		}
		return d.Ch == 0
	}
	if k >= e.MaxDepth {
		panic(engineLimit{"decision depth limit"})
	}
	if v, ok := e.known(cond); ok {
		// already fixed by the path condition: forced arm, no query
		ch := 1
		if v {
			ch = 0
		}
		e.trace = append(e.trace, Decision{Kind: 'b', Ch: ch})
		return v
	}
	rt := e.check(cond)
	if rt == smt.Unsat {
		// only the false arm (recorded so that replays stay aligned)
		e.trace = append(e.trace, Decision{Kind: 'b', Ch: 1})
		e.learn(cond, false)
		return false
	}
	rf := e.check(sctx.Not(cond))
	if rf == smt.Unsat {
		e.trace = append(e.trace, Decision{Kind: 'b', Ch: 0})
		e.learn(cond, true)
		return true
	}
	if rt == smt.Unknown || rf == smt.Unknown {
		e.inconclusive("feasibility unknown at branch; both arms kept")
	}
	e.pushAlt(Decision{Kind: 'b', Ch: 1})
	e.trace = append(e.trace, Decision{Kind: 'b', Ch: 0})
	e.addPC(cond)
	e.learn(cond, true)
	return true
}

// choose is an n-way free choice of the environment.
func (e *Explorer) choose(n int) int {
	if n <= 1 {
		return 0
	}
	k := len(e.trace)
	var ch int
	if k < len(e.prefix) {
		d := e.prefix[k]
		if d.Kind != 'c' {
			panic(engineLimit{fmt.Sprintf("decision log mismatch at %d: want choice, have %c", k, d.Kind)})
		}
		ch = d.Ch
	} else {
		if k >= e.MaxDepth {
			panic(engineLimit{"decision depth limit"})
		}
		for i := n - 1; i >= 1; i-- {
			e.pushAlt(Decision{Kind: 'c', Ch: i})
		}
		ch = 0
	}
	e.trace = append(e.trace, Decision{Kind: 'c', Ch: ch})
	return ch
}

// concretize enumerates the feasible values of a symbolic scalar (one solver
// session with blocking clauses) and forks one path per value.
func (e *Explorer) concretize(s sym, why string) value {
	k := len(e.trace)
	if k < len(e.prefix) {
		d := e.prefix[k]
		if d.Kind != 'v' {
			panic(engineLimit{fmt.Sprintf("decision log mismatch at %d: want concretisation, have %c", k, d.Kind)})
		}
		e.trace = append(e.trace, d)
		e.addPC(sctx.Eq(s.e, constOfKind(s.k, d.Val)))
		return mkConcrete(s.k, d.Val)
	}
	if k >= e.MaxDepth {
		panic(engineLimit{"decision depth limit"})
	}
	vals, complete := e.Solver.Enumerate(e.pc, s.e, e.MaxConc)
	if len(vals) == 0 {
		if !complete {
			panic(engineLimit{"concretisation: solver unknown (" + why + ")"})
		}
		panic(pathAbort{"no feasible value"})
	}
	if !complete {
		e.inconclusive(fmt.Sprintf("concretisation of %s stopped after %d values (limit or solver unknown)", why, len(vals)))
	}
	for i := len(vals) - 1; i >= 1; i-- {
		e.pushAlt(Decision{Kind: 'v', Ch: 0, Val: vals[i]})
	}
	e.trace = append(e.trace, Decision{Kind: 'v', Ch: 0, Val: vals[0]})
	e.addPC(sctx.Eq(s.e, constOfKind(s.k, vals[0])))
	return mkConcrete(s.k, vals[0])
}

func constOfKind(k types.BasicKind, bits uint64) *smt.Term {
	return lift(mkConcrete(k, bits))
}

// decide turns a bool-or-symbolic-bool into a Go bool (forking).
func decide(v value) bool {
	switch v := v.(type) {
	case bool:
		return v
	case sym:
		return ex.branch(v.e)
	}
	panic(fmt.Sprintf("decide: %T", v))
}

// concreteInt returns x as int64, concretising symbolic integers.
func concreteInt(x value, why string) value {
	if s, ok := x.(sym); ok {
		return ex.concretize(s, why)
	}
	return x
}

// fresh draws a new symbolic input.
func (e *Explorer) fresh(k types.BasicKind, label string) value {
	bits := 1
	if k != types.Bool {
		bits = kindSort(k).W
		if k == types.Float32 {
			bits = 32
		} else if k == types.Float64 {
			bits = 64
		}
	}
	name := fmt.Sprintf("in%d_%d", e.ndraw, bits)
	e.ndraw++
	var t *smt.Term
	if k == types.Bool {
		t = sctx.Var(name, smt.Bool)
	} else {
		t = sctx.Var(name, smt.BV(bits))
	}
	e.draws = append(e.draws, Draw{Name: label, Bits: bits, Term: t})
	switch k {
	case types.Float32, types.Float64:
		return sym{e: sctx.FpFromBits(t), k: k}
	}
	return sym{e: t, k: k}
}

func (e *Explorer) recordChoice(n, v int) {
	e.draws = append(e.draws, Draw{Name: "choice", Bits: 0, Val: uint64(v)})
	e.ndraw++
}

func (e *Explorer) traceString() string {
	var sb strings.Builder
	for _, d := range e.trace {
		switch d.Kind {
		case 'b':
			fmt.Fprintf(&sb, "b%d ", d.Ch)
		case 'c':
			fmt.Fprintf(&sb, "c%d ", d.Ch)
		case 'v':
			fmt.Fprintf(&sb, "v%d:%x ", d.Ch, d.Val)
		}
	}
	return sb.String()
}

// violation records a finding given extra constraints that make it fire.
func (e *Explorer) violation(kind, site, msg string, extra ...*smt.Term) bool {
	as := append(append([]*smt.Term{}, e.pc...), extra...)
	var want []*smt.Term
	for _, d := range e.draws {
		if d.Term != nil {
			want = append(want, d.Term)
		}
	}
	r, vals := e.Solver.Check(as, want)
	if r == smt.Sat && sctx.FloatUF {
		// floats are uninterpreted: prefer a model whose 32-bit inputs are
		// "generic" floats (normal, exponents close together, non-zero
		// mantissa), so that the native replay, which uses real arithmetic,
		// is likely to show the same difference
		var gen []*smt.Term
		for _, d := range e.draws {
			if d.Term != nil && d.Term.S.W == 32 {
				ex8 := sctx.Extract(d.Term, 30, 23)
				gen = append(gen, sctx.BvUle(sctx.BVC(124, 8), ex8), sctx.BvUle(ex8, sctx.BVC(131, 8)),
					sctx.Not(sctx.Eq(sctx.Extract(d.Term, 22, 0), sctx.BVC(0, 23))))
			}
		}
		if len(gen) > 0 && len(gen) < 3000 {
			if r2, v2 := e.Solver.Check(append(append([]*smt.Term{}, as...), gen...), want); r2 == smt.Sat {
				vals = v2
			}
		}
	}
	switch r {
	case smt.Unsat:
		return false
	case smt.Unknown:
		e.inconclusive(fmt.Sprintf("%s at %s: solver unknown (%s)", kind, site, e.Solver.LastErr))
		return false
	}
	f := Finding{Kind: kind, Site: site, Msg: msg, Entry: e.Entry, Trace: e.traceString()}
	if sched != nil && len(sched.switches) > 0 {
		f.Sched = append([]SchedStep{}, sched.switches...)
	}
	i := 0
	for _, d := range e.draws {
		f.Names = append(f.Names, d.Name)
		if d.Term != nil {
			f.Vector = append(f.Vector, vals[i])
			i++
		} else {
			f.Vector = append(f.Vector, d.Val)
		}
	}
	for fr := e.curFrame; fr != nil && len(f.Stack) < 12; fr = fr.caller {
		f.Stack = append(f.Stack, fr.fn.String())
	}
	e.Stats.Violated++
	e.Findings = append(e.Findings, f)
	return true
}

// assert checks an obligation.
func (e *Explorer) assert(c value, site, msg string) {
	e.Stats.AssertSites[site]++
	switch cv := c.(type) {
	case bool:
		if !cv {
			if !e.violation("assert", site, msg) {
				// unreachable path (can happen after kept-unknown arms)
				panic(pathAbort{"assert false on infeasible path"})
			}
			panic(pathAbort{"assertion failed"})
		}
		e.Stats.ConcreteAsserts++
		return
	case sym:
		if v, ok := e.known(cv.e); ok && v {
			e.Stats.Discharged++ // same condition already established on this path
			return
		}
		neg := sctx.Not(cv.e)
		if e.violation("assert", site, msg, neg) {
			// continue under the assumption that it held
			if e.check(cv.e) == smt.Unsat {
				panic(pathAbort{"assertion always fails"})
			}
		} else {
			e.Stats.Discharged++
			if len(e.Samples) < 3 {
				e.Samples = append(e.Samples, fmt.Sprintf("discharged(unsat) %s @%s %q under path [%s] with %d pc conjuncts", e.Entry, site, msg, e.traceString(), len(e.pc)))
			}
		}
		e.addPC(cv.e)
		e.learn(cv.e, true)
	}
}

func (e *Explorer) assume(c value) {
	switch cv := c.(type) {
	case bool:
		if !cv {
			panic(pathAbort{"assume false"})
		}
	case sym:
		if v, ok := e.known(cv.e); ok && v {
			return
		}
		if e.check(cv.e) == smt.Unsat {
			panic(pathAbort{"assume infeasible"})
		}
		e.addPC(cv.e)
		e.learn(cv.e, true)
	}
}

func posString(fset *token.FileSet, p token.Pos) string {
	if !p.IsValid() {
		return "?"
	}
	ps := fset.Position(p)
	f := ps.Filename
	if i := strings.LastIndex(f, "/"); i >= 0 {
		f = f[i+1:]
	}
	return fmt.Sprintf("%s:%d", f, ps.Line)
}

func sortedKeys(m map[string]bool) []string {
	var ks []string
	for k := range m {
		ks = append(ks, k)
	}
	sort.Strings(ks)
	return ks
}

// witness records a satisfying input vector of the current (completed) path
// together with the expected values of all Observe calls.
func (e *Explorer) witness() {
	var want []*smt.Term
	for _, d := range e.draws {
		if d.Term != nil {
			want = append(want, d.Term)
		}
	}
	nd := len(want)
	for _, o := range e.observes {
		if s, ok := o.(sym); ok {
			want = append(want, s.e)
		}
	}
	r, vals := e.Solver.Check(append([]*smt.Term{}, e.pc...), want)
	if r != smt.Sat {
		return
	}
	f := Finding{Kind: "witness", Entry: e.Entry, Trace: e.traceString()}
	if sched != nil && len(sched.switches) > 0 {
		f.Sched = append([]SchedStep{}, sched.switches...)
	}
	i := 0
	for _, d := range e.draws {
		f.Names = append(f.Names, d.Name)
		if d.Term != nil {
			f.Vector = append(f.Vector, vals[i])
			i++
		} else {
			f.Vector = append(f.Vector, d.Val)
		}
	}
	j := nd
	for _, o := range e.observes {
		if _, ok := o.(sym); ok {
			f.Observed = append(f.Observed, vals[j])
			j++
		} else {
			k, _ := kindOf(o)
			f.Observed = append(f.Observed, lift(o).C&maskOf(k))
		}
	}
	e.Witnesses = append(e.Witnesses, f)
}

func maskOf(k types.BasicKind) uint64 {
	if k == types.Bool {
		return 1
	}
	return ^uint64(0)
}
