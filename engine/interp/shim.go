package interp

import (
	"fmt"
	"go/types"
)

func coreType(T types.Type) types.Type { return T.Underlying() }

func mustDeref(t types.Type) types.Type {
	if ptr, ok := coreType(t).(*types.Pointer); ok {
		return ptr.Elem()
	}
	panic(fmt.Sprintf("%v is not a pointer", t))
}

// jappend is append with journaling of in-place writes into spare capacity.
func jappend(x, y []value) []value {
	if len(y) == 0 {
		return x
	}
	if len(x)+len(y) <= cap(x) {
		ext := x[:len(x)+len(y)]
		for i := range y {
			jset(&ext[len(x)+i], y[i])
		}
		return ext
	}
	ncap := 2 * cap(x)
	if ncap < len(x)+len(y) {
		ncap = len(x) + len(y)
	}
	if ncap < 4 {
		ncap = 4
	}
	n := make([]value, len(x)+len(y), ncap)
	copy(n, x)
	copy(n[len(x):], y)
	return n
}

func jcopy(dst, src []value) int {
	n := len(dst)
	if len(src) < n {
		n = len(src)
	}
	if n == 0 {
		return 0
	}
	// overlap-safe
	tmp := make([]value, n)
	copy(tmp, src[:n])
	for i := 0; i < n; i++ {
		jset(&dst[i], tmp[i])
	}
	return n
}
