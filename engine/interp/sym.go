package interp

// Symbolic scalars for the gosym engine.

import (
	"fmt"
	"go/token"
	"go/types"
	"math"

	"gosym/smt"
)

// sym is a symbolic scalar: an SMT term together with the Go basic kind it
// stands for (which fixes width and signedness).
type sym struct {
	e *smt.Term
	k types.BasicKind
}

var sctx = smt.NewCtx()

func kindWidth(k types.BasicKind) int {
	switch k {
	case types.Int8, types.Uint8:
		return 8
	case types.Int16, types.Uint16:
		return 16
	case types.Int32, types.Uint32:
		return 32
	case types.Int, types.Uint, types.Int64, types.Uint64, types.Uintptr:
		return 64
	}
	panic(fmt.Sprintf("kindWidth: %v", k))
}

func kindSigned(k types.BasicKind) bool {
	switch k {
	case types.Int, types.Int8, types.Int16, types.Int32, types.Int64:
		return true
	}
	return false
}

func kindIsInt(k types.BasicKind) bool {
	switch k {
	case types.Int, types.Int8, types.Int16, types.Int32, types.Int64,
		types.Uint, types.Uint8, types.Uint16, types.Uint32, types.Uint64, types.Uintptr:
		return true
	}
	return false
}

func kindSort(k types.BasicKind) smt.Sort {
	switch k {
	case types.Bool:
		return smt.Bool
	case types.Float32:
		return sctx.FSort(32)
	case types.Float64:
		return sctx.FSort(64)
	}
	return smt.BV(kindWidth(k))
}

// kindOf returns the basic kind of a concrete scalar value.
func kindOf(v value) (types.BasicKind, bool) {
	switch v := v.(type) {
	case sym:
		return v.k, true
	case bool:
		return types.Bool, true
	case int:
		return types.Int, true
	case int8:
		return types.Int8, true
	case int16:
		return types.Int16, true
	case int32:
		return types.Int32, true
	case int64:
		return types.Int64, true
	case uint:
		return types.Uint, true
	case uint8:
		return types.Uint8, true
	case uint16:
		return types.Uint16, true
	case uint32:
		return types.Uint32, true
	case uint64:
		return types.Uint64, true
	case uintptr:
		return types.Uintptr, true
	case float32:
		return types.Float32, true
	case float64:
		return types.Float64, true
	}
	return 0, false
}

// lift returns the term denoting scalar v.
func lift(v value) *smt.Term {
	switch v := v.(type) {
	case sym:
		return v.e
	case bool:
		return sctx.BoolC(v)
	case int:
		return sctx.BVC(uint64(v), 64)
	case int8:
		return sctx.BVC(uint64(v), 8)
	case int16:
		return sctx.BVC(uint64(v), 16)
	case int32:
		return sctx.BVC(uint64(v), 32)
	case int64:
		return sctx.BVC(uint64(v), 64)
	case uint:
		return sctx.BVC(uint64(v), 64)
	case uint8:
		return sctx.BVC(uint64(v), 8)
	case uint16:
		return sctx.BVC(uint64(v), 16)
	case uint32:
		return sctx.BVC(uint64(v), 32)
	case uint64:
		return sctx.BVC(v, 64)
	case uintptr:
		return sctx.BVC(uint64(v), 64)
	case float32:
		return sctx.F32C(v)
	case float64:
		return sctx.F64C(v)
	}
	panic(fmt.Sprintf("lift: not a scalar: %T", v))
}

// mkConcrete builds the native value of kind k from raw bits.
func mkConcrete(k types.BasicKind, b uint64) value {
	switch k {
	case types.Bool:
		return b != 0
	case types.Int:
		return int(b)
	case types.Int8:
		return int8(b)
	case types.Int16:
		return int16(b)
	case types.Int32:
		return int32(b)
	case types.Int64:
		return int64(b)
	case types.Uint:
		return uint(b)
	case types.Uint8:
		return uint8(b)
	case types.Uint16:
		return uint16(b)
	case types.Uint32:
		return uint32(b)
	case types.Uint64:
		return b
	case types.Uintptr:
		return uintptr(b)
	case types.Float32:
		return math.Float32frombits(uint32(b))
	case types.Float64:
		return math.Float64frombits(b)
	}
	panic(fmt.Sprintf("mkConcrete: %v", k))
}

// mkval wraps a term as a value of kind k, folding constants to native values.
func mkval(e *smt.Term, k types.BasicKind) value {
	if e.IsConst() {
		return mkConcrete(k, e.C)
	}
	if e.S != kindSort(k) {
		panic(fmt.Sprintf("mkval: sort %v does not fit kind %v", e.S, k))
	}
	return sym{e: e, k: k}
}

func isSym(v value) bool { _, ok := v.(sym); return ok }

// hasSym reports whether v contains a symbolic scalar (shallow aggregates).
func hasSym(v value) bool {
	switch v := v.(type) {
	case sym:
		return true
	case structure:
		for _, f := range v {
			if hasSym(f) {
				return true
			}
		}
	case array:
		for _, f := range v {
			if hasSym(f) {
				return true
			}
		}
	case iface:
		return hasSym(v.v)
	}
	return false
}

func basicKindOfType(t types.Type) types.BasicKind {
	if b, ok := t.Underlying().(*types.Basic); ok {
		k := b.Kind()
		switch k {
		case types.UntypedBool:
			return types.Bool
		case types.UntypedInt:
			return types.Int
		case types.UntypedRune:
			return types.Int32
		case types.UntypedFloat:
			return types.Float64
		}
		return k
	}
	return types.Invalid
}

// symBinop handles a binary operator with at least one symbolic operand.
func symBinop(op token.Token, t types.Type, x, y value) value {
	c := sctx
	kx, _ := kindOf(x)
	ky, _ := kindOf(y)
	a, b := lift(x), lift(y)
	switch op {
	case token.SHL, token.SHR:
		if !kindIsInt(kx) || !kindIsInt(ky) {
			panic("symbolic shift of non-integers")
		}
		if kindSigned(ky) {
			neg := c.BvSlt(b, c.BVC(0, b.S.W))
			if decide(mkval(neg, types.Bool)) {
				panic("negative shift amount")
			}
		}
		w := a.S.W
		var sh *smt.Term
		if b.S.W == w {
			sh = b
		} else if b.S.W < w {
			sh = c.Zext(b, w)
		} else {
			big := c.BvUle(c.BVC(uint64(w), b.S.W), b)
			sh = c.Ite(big, c.BVC(uint64(w), w), c.Extract(b, w-1, 0))
		}
		if op == token.SHL {
			return mkval(c.BvShl(a, sh), kx)
		}
		if kindSigned(kx) {
			return mkval(c.BvAshr(a, sh), kx)
		}
		return mkval(c.BvLshr(a, sh), kx)
	}
	if kx != ky {
		panic(fmt.Sprintf("symBinop: kind mismatch %v %v (op %s)", kx, ky, op))
	}
	k := kx
	switch k {
	case types.Bool:
		switch op {
		case token.EQL:
			return mkval(c.Eq(a, b), types.Bool)
		case token.NEQ:
			return mkval(c.Not(c.Eq(a, b)), types.Bool)
		case token.AND, token.LAND:
			return mkval(c.And(a, b), types.Bool)
		case token.OR, token.LOR:
			return mkval(c.Or(a, b), types.Bool)
		}
	case types.Float32, types.Float64:
		switch op {
		case token.ADD:
			return mkval(c.FpBin(smt.OFpAdd, a, b), k)
		case token.SUB:
			return mkval(c.FpBin(smt.OFpSub, a, b), k)
		case token.MUL:
			return mkval(c.FpBin(smt.OFpMul, a, b), k)
		case token.QUO:
			return mkval(c.FpBin(smt.OFpDiv, a, b), k)
		case token.EQL:
			return mkval(c.FpCmp(smt.OFpEq, a, b), types.Bool)
		case token.NEQ:
			return mkval(c.Not(c.FpCmp(smt.OFpEq, a, b)), types.Bool)
		case token.LSS:
			return mkval(c.FpCmp(smt.OFpLt, a, b), types.Bool)
		case token.LEQ:
			return mkval(c.FpCmp(smt.OFpLe, a, b), types.Bool)
		case token.GTR:
			return mkval(c.FpCmp(smt.OFpLt, b, a), types.Bool)
		case token.GEQ:
			return mkval(c.FpCmp(smt.OFpLe, b, a), types.Bool)
		}
	default:
		if !kindIsInt(k) {
			break
		}
		sg := kindSigned(k)
		switch op {
		case token.ADD:
			return mkval(c.BvAdd(a, b), k)
		case token.SUB:
			return mkval(c.BvSub(a, b), k)
		case token.MUL:
			return mkval(c.BvMul(a, b), k)
		case token.QUO, token.REM:
			z := c.Eq(b, c.BVC(0, b.S.W))
			if decide(mkval(z, types.Bool)) {
				panic(runtimeError("integer divide by zero"))
			}
			if op == token.QUO {
				if sg {
					return mkval(c.BvSDiv(a, b), k)
				}
				return mkval(c.BvUDiv(a, b), k)
			}
			if sg {
				return mkval(c.BvSRem(a, b), k)
			}
			return mkval(c.BvURem(a, b), k)
		case token.AND:
			return mkval(c.BvAnd(a, b), k)
		case token.OR:
			return mkval(c.BvOr(a, b), k)
		case token.XOR:
			return mkval(c.BvXor(a, b), k)
		case token.AND_NOT:
			return mkval(c.BvAnd(a, c.BvNot(b)), k)
		case token.EQL:
			return mkval(c.Eq(a, b), types.Bool)
		case token.NEQ:
			return mkval(c.Not(c.Eq(a, b)), types.Bool)
		case token.LSS:
			if sg {
				return mkval(c.BvSlt(a, b), types.Bool)
			}
			return mkval(c.BvUlt(a, b), types.Bool)
		case token.LEQ:
			if sg {
				return mkval(c.BvSle(a, b), types.Bool)
			}
			return mkval(c.BvUle(a, b), types.Bool)
		case token.GTR:
			if sg {
				return mkval(c.BvSlt(b, a), types.Bool)
			}
			return mkval(c.BvUlt(b, a), types.Bool)
		case token.GEQ:
			if sg {
				return mkval(c.BvSle(b, a), types.Bool)
			}
			return mkval(c.BvUle(b, a), types.Bool)
		}
	}
	panic(fmt.Sprintf("symBinop: unsupported %v %s %v", kx, op, ky))
}

type runtimeError string

func (e runtimeError) Error() string { return "runtime error: " + string(e) }
func (e runtimeError) RuntimeError() {}

func symUnop(op token.Token, x sym) value {
	c := sctx
	switch op {
	case token.SUB:
		if x.k == types.Float32 || x.k == types.Float64 {
			return mkval(c.FpUn(smt.OFpNeg, x.e), x.k)
		}
		return mkval(c.BvNeg(x.e), x.k)
	case token.NOT:
		return mkval(c.Not(x.e), types.Bool)
	case token.XOR:
		return mkval(c.BvNot(x.e), x.k)
	}
	panic(fmt.Sprintf("symUnop: unsupported %s", op))
}

// fpToInt models amd64 Go float->integer conversion of a symbolic float.
func fpToInt(f *smt.Term, dst types.BasicKind) *smt.Term {
	c := sctx
	fs := f.S
	fc := func(v float64) *smt.Term {
		if fs.K == smt.KFP32 || (fs.K == smt.KBV && fs.W == 32) {
			return c.F32C(float32(v))
		}
		return c.F64C(v)
	}
	isnan := c.FpPred(smt.OFpIsNaN, f)
	cvt64 := func(f *smt.Term) *smt.Term { // CVTTSx2SQ
		bad := c.Or(isnan, c.Or(c.FpCmp(smt.OFpLe, fc(9223372036854775808.0), f), c.FpCmp(smt.OFpLt, f, fc(-9223372036854775808.0))))
		return c.Ite(bad, c.BVC(1<<63, 64), c.FpToInt(f, true, 64))
	}
	switch dst {
	case types.Int32:
		bad := c.Or(isnan, c.Or(c.FpCmp(smt.OFpLe, fc(2147483648.0), f), c.FpCmp(smt.OFpLt, f, fc(-2147483649.0))))
		if fs.K == smt.KFP32 || (fs.K == smt.KBV && fs.W == 32) {
			bad = c.Or(isnan, c.Or(c.FpCmp(smt.OFpLe, fc(2147483648.0), f), c.FpCmp(smt.OFpLt, f, fc(-2147483648.0))))
		} else {
			bad = c.Or(isnan, c.Or(c.FpCmp(smt.OFpLe, fc(2147483648.0), f), c.FpCmp(smt.OFpLe, f, fc(-2147483649.0))))
		}
		return c.Ite(bad, c.BVC(1<<31, 32), c.FpToInt(f, true, 32))
	case types.Int64, types.Int:
		return cvt64(f)
	case types.Int8, types.Int16:
		// via 32-bit conversion then truncation
		v := fpToInt(f, types.Int32)
		return c.Extract(v, kindWidth(dst)-1, 0)
	case types.Uint8, types.Uint16, types.Uint32:
		v := cvt64(f)
		return c.Extract(v, kindWidth(dst)-1, 0)
	case types.Uint64, types.Uint, types.Uintptr:
		two63 := fc(9223372036854775808.0)
		small := c.FpCmp(smt.OFpLt, f, two63)
		hi := c.BvXor(cvt64(c.FpBin(smt.OFpSub, f, two63)), c.BVC(1<<63, 64))
		// NaN: comparison false -> goes the "big" way: cvt(NaN - 2^63)=indefinite ^ signbit = 0
		return c.Ite(small, cvt64(f), hi)
	}
	panic("fpToInt: bad kind")
}

// symConv converts symbolic scalar x to the basic type dst.
func symConv(dst types.BasicKind, x sym) value {
	c := sctx
	src := x.k
	switch {
	case kindIsInt(src) && kindIsInt(dst):
		ws, wd := kindWidth(src), kindWidth(dst)
		switch {
		case wd == ws:
			return mkval(x.e, dst)
		case wd < ws:
			return mkval(c.Extract(x.e, wd-1, 0), dst)
		case kindSigned(src):
			return mkval(c.Sext(x.e, wd), dst)
		default:
			return mkval(c.Zext(x.e, wd), dst)
		}
	case kindIsInt(src) && (dst == types.Float32 || dst == types.Float64):
		return mkval(c.FpFromInt(x.e, kindSigned(src), kindSort(dst)), dst)
	case (src == types.Float32 || src == types.Float64) && kindIsInt(dst):
		return mkval(fpToInt(x.e, dst), dst)
	case (src == types.Float32 || src == types.Float64) && (dst == types.Float32 || dst == types.Float64):
		return mkval(c.FpToFp(x.e, kindSort(dst)), dst)
	case src == types.Bool && dst == types.Bool:
		return x
	}
	panic(fmt.Sprintf("symConv: unsupported %v -> %v", src, dst))
}

// symEquals is == over values that may contain symbolic scalars; the result
// is a bool or a symbolic bool.
func symEquals(t types.Type, x, y value) value {
	if !hasSym(x) && !hasSym(y) {
		return equals(t, x, y)
	}
	c := sctx
	switch xv := x.(type) {
	case structure:
		yv := y.(structure)
		st := t.Underlying().(*types.Struct)
		acc := value(true)
		for i := range xv {
			f := st.Field(i)
			if f.Name() == "_" {
				continue
			}
			acc = symAnd(acc, symEquals(f.Type(), xv[i], yv[i]))
		}
		return acc
	case array:
		yv := y.(array)
		et := t.Underlying().(*types.Array).Elem()
		acc := value(true)
		for i := range xv {
			acc = symAnd(acc, symEquals(et, xv[i], yv[i]))
		}
		return acc
	case iface:
		yv := y.(iface)
		if !sameType(xv.t, yv.t) {
			return false
		}
		if xv.t == nil {
			return true
		}
		return symEquals(xv.t, xv.v, yv.v)
	}
	kx, okx := kindOf(x)
	ky, oky := kindOf(y)
	if !okx || !oky || kx != ky {
		panic(fmt.Sprintf("symEquals: cannot compare %T and %T", x, y))
	}
	a, b := lift(x), lift(y)
	if kx == types.Float32 || kx == types.Float64 {
		return mkval(c.FpCmp(smt.OFpEq, a, b), types.Bool)
	}
	return mkval(c.Eq(a, b), types.Bool)
}

func symAnd(x, y value) value {
	if xb, ok := x.(bool); ok {
		if !xb {
			return false
		}
		return y
	}
	if yb, ok := y.(bool); ok {
		if !yb {
			return false
		}
		return x
	}
	return mkval(sctx.And(x.(sym).e, y.(sym).e), types.Bool)
}

func symNot(x value) value {
	if b, ok := x.(bool); ok {
		return !b
	}
	return mkval(sctx.Not(x.(sym).e), types.Bool)
}

// symIte builds ite(c, a, b) over scalars of equal kind.
func symIte(cond *smt.Term, a, b value) (value, bool) {
	ka, oka := kindOf(a)
	kb, okb := kindOf(b)
	if !oka || !okb || ka != kb {
		return nil, false
	}
	return mkval(sctx.Ite(cond, lift(a), lift(b)), ka), true
}

// reinterpret supports the (*T)(unsafe.Pointer(&x)) idiom for same-size
// scalars: a cell holding a scalar of another kind is read as bits of T.
func reinterpret(T types.Type, v value) value {
	b, ok := T.Underlying().(*types.Basic)
	if !ok {
		return v
	}
	kd := b.Kind()
	ks, ok := kindOf(v)
	if !ok || ks == kd || kd == types.String || kd == types.UnsafePointer || ks == types.Bool || kd == types.Bool {
		return v
	}
	if kd == types.Complex64 || kd == types.Complex128 {
		return v
	}
	c := sctx
	e := lift(v)
	// to bits
	switch ks {
	case types.Float32, types.Float64:
		e = c.FpToBits(e)
	}
	wd := 0
	switch kd {
	case types.Float32:
		wd = 32
	case types.Float64:
		wd = 64
	default:
		wd = kindWidth(kd)
	}
	if e.S.W != wd {
		panic(engineLimit{fmt.Sprintf("unsafe reinterpretation between sizes %d and %d", e.S.W, wd)})
	}
	switch kd {
	case types.Float32, types.Float64:
		return mkval(c.FpFromBits(e), kd)
	}
	return mkval(e, kd)
}
