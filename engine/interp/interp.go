// Copyright 2013 The Go Authors. All rights reserved.
// Use of this source code is governed by a BSD-style
// license that can be found in the LICENSE file.

// Package ssa/interp defines an interpreter for the SSA
// representation of Go programs.
//
// This interpreter is provided as an adjunct for testing the SSA
// construction algorithm.  Its purpose is to provide a minimal
// metacircular implementation of the dynamic semantics of each SSA
// instruction.  It is not, and will never be, a production-quality Go
// interpreter.
//
// The following is a partial list of Go features that are currently
// unsupported or incomplete in the interpreter.
//
// * Unsafe operations, including all uses of unsafe.Pointer, are
// impossible to support given the "boxed" value representation we
// have chosen.
//
// * The reflect package is only partially implemented.
//
// * The "testing" package is no longer supported because it
// depends on low-level details that change too often.
//
// * "sync/atomic" operations are not atomic due to the "boxed" value
// representation: it is not possible to read, modify and write an
// interface value atomically. As a consequence, Mutexes are currently
// broken.
//
// * recover is only partially implemented.  Also, the interpreter
// makes no attempt to distinguish target panics from interpreter
// crashes.
//
// * the sizes of the int, uint and uintptr types in the target
// program are assumed to be the same as those of the interpreter
// itself.
//
// * all values occupy space, even those of types defined by the spec
// to have zero size, e.g. struct{}.  This can cause asymptotic
// performance degradation.
//
// * os.Exit is implemented using panic, causing deferred functions to
// run.
package interp // import "golang.org/x/tools/go/ssa/interp"

import (
	"fmt"
	"go/token"
	"go/types"
	"log"
	"os"
	"runtime"
	"slices"
	"strings"
	"unsafe"
	_ "unsafe"

	"golang.org/x/tools/go/ssa"
)

type continuation int

const (
	kNext continuation = iota
	kReturn
	kJump
)

// Mode is a bitmask of options affecting the interpreter.
type Mode uint

const (
	DisableRecover Mode = 1 << iota // Disable recover() in target programs; show interpreter crash instead.
	EnableTracing                   // Print a trace of all instructions as they are interpreted.
)

type methodSet map[string]*ssa.Function

// State shared between all interpreted goroutines.
type interpreter struct {
	osArgs             []value                // the value of os.Args
	prog               *ssa.Program           // the SSA program
	globals            map[*ssa.Global]*value // addresses of global variables (immutable)
	mode               Mode                   // interpreter options
	reflectPackage     *ssa.Package           // the fake reflect package
	errorMethods       methodSet              // the method set of reflect.error, which implements the error interface.
	rtypeMethods       methodSet              // the method set of rtype, which implements the reflect.Type interface.
	runtimeErrorString types.Type             // the runtime.errorString type (iff "runtime" is present)
	sizes              types.Sizes            // the effective type-sizing function
	goroutines         int32                  // atomically updated
	initAllow          func(path string) bool
	interpAllow        func(path string) bool
}

func (i *interpreter) initAllowed(p *ssa.Package) bool {
	return p != nil && i.initAllow != nil && i.initAllow(p.Pkg.Path())
}

func (i *interpreter) pkgInterpretable(p *ssa.Package) bool {
	return i.interpAllow == nil || i.interpAllow(p.Pkg.Path())
}

type deferred struct {
	fn    value
	args  []value
	instr *ssa.Defer
	tail  *deferred
}

type frame struct {
	i                *interpreter
	caller           *frame
	fn               *ssa.Function
	block, prevBlock *ssa.BasicBlock
	env              []value // dynamic values of SSA variables (indexed by fnInfo.idx)
	info             *fnInfo
	locals           []value
	defers           *deferred
	result           value
	panicking        bool
	panic            any
	phitemps         []value // temporaries for parallel phi assignment
	pos              token.Pos // position of the call being executed
}

func (fr *frame) get(key ssa.Value) value {
	switch key := key.(type) {
	case nil:
		// Hack; simplifies handling of optional attributes
		// such as ssa.Slice.{Low,High}.
		return nil
	case *ssa.Function, *ssa.Builtin:
		return key
	case *ssa.Const:
		return constValue(key)
	case *ssa.Global:
		if r, ok := fr.i.globals[key]; ok {
			return r
		}
	}
	if ix, ok := fr.info.idx[vkey(key)]; ok {
		return fr.env[ix]
	}
	panic(fmt.Sprintf("get: no value for %T: %v", key, key.Name()))
}

// runDefer runs a deferred call d.
// It always returns normally, but may set or clear fr.panic.
func (fr *frame) runDefer(d *deferred) {
	if fr.i.mode&EnableTracing != 0 {
		fmt.Fprintf(os.Stderr, "%s: invoking deferred function call\n",
			fr.i.prog.Fset.Position(d.instr.Pos()))
	}
	var ok bool
	defer func() {
		if !ok {
			// Deferred call created a new state of panic.
			fr.panicking = true
			fr.panic = recover()
		}
	}()
	call(fr.i, fr, d.instr.Pos(), d.fn, d.args)
	ok = true
}

// runDefers executes fr's deferred function calls in LIFO order.
//
// On entry, fr.panicking indicates a state of panic; if
// true, fr.panic contains the panic value.
//
// On completion, if a deferred call started a panic, or if no
// deferred call recovered from a previous state of panic, then
// runDefers itself panics after the last deferred call has run.
//
// If there was no initial state of panic, or it was recovered from,
// runDefers returns normally.
func (fr *frame) runDefers() {
	for d := fr.defers; d != nil; d = d.tail {
		fr.runDefer(d)
	}
	fr.defers = nil
	if fr.panicking {
		panic(fr.panic) // new panic, or still panicking
	}
}

// lookupMethod returns the method set for type typ, which may be one
// of the interpreter's fake types.
func lookupMethod(i *interpreter, typ types.Type, meth *types.Func) *ssa.Function {
	switch typ {
	case rtypeType:
		return i.rtypeMethods[meth.Id()]
	case errorType:
		return i.errorMethods[meth.Id()]
	}
	return i.prog.LookupMethod(typ, meth.Pkg(), meth.Name())
}

// visitInstr interprets a single ssa.Instruction within the activation
// record frame.  It returns a continuation value indicating where to
// read the next instruction from.
func visitInstr(fr *frame, instr ssa.Instruction) continuation {
	switch instr := instr.(type) {
	case *ssa.DebugRef:
		// no-op

	case *ssa.UnOp:
		unopFrame = fr
		fr.set(instr, unop(instr, fr.get(instr.X)))

	case *ssa.BinOp:
		ex.curFrame = fr
		fr.set(instr, binop(instr.Op, instr.X.Type(), fr.get(instr.X), fr.get(instr.Y)))

	case *ssa.Call:
		ex.curFrame = fr
		fr.pos = instr.Pos()
		fn, args := prepareCall(fr, &instr.Call)
		fr.set(instr, call(fr.i, fr, instr.Pos(), fn, args))

	case *ssa.ChangeInterface:
		fr.set(instr, fr.get(instr.X))

	case *ssa.ChangeType:
		fr.set(instr, fr.get(instr.X)) // (can't fail)

	case *ssa.Convert:
		fr.set(instr, conv(instr.Type(), instr.X.Type(), fr.get(instr.X)))

	case *ssa.SliceToArrayPointer:
		fr.set(instr, sliceToArrayPointer(instr.Type(), instr.X.Type(), fr.get(instr.X)))

	case *ssa.MakeInterface:
		fr.set(instr, iface{t: instr.X.Type(), v: fr.get(instr.X)})

	case *ssa.Extract:
		fr.set(instr, fr.get(instr.Tuple).(tuple)[instr.Index])

	case *ssa.Slice:
		fr.set(instr, slice(fr.get(instr.X), fr.get(instr.Low), fr.get(instr.High), fr.get(instr.Max)))

	case *ssa.Return:
		switch len(instr.Results) {
		case 0:
		case 1:
			fr.result = fr.get(instr.Results[0])
		default:
			var res []value
			for _, r := range instr.Results {
				res = append(res, fr.get(r))
			}
			fr.result = tuple(res)
		}
		fr.block = nil
		return kReturn

	case *ssa.RunDefers:
		fr.runDefers()

	case *ssa.Panic:
		panic(targetPanic{fr.get(instr.X)})

	case *ssa.Send:
		sched.send(fr, fr.get(instr.Chan).(*ichan), fr.get(instr.X))

	case *ssa.Store:
		store(mustDeref(instr.Addr.Type()), fr.get(instr.Addr).(*value), fr.get(instr.Val))

	case *ssa.If:
		succ := 1
		ex.curFrame = fr
		if decide(fr.get(instr.Cond)) {
			succ = 0
		}
		fr.prevBlock, fr.block = fr.block, fr.block.Succs[succ]
		return kJump

	case *ssa.Jump:
		fr.prevBlock, fr.block = fr.block, fr.block.Succs[0]
		return kJump

	case *ssa.Defer:
		fn, args := prepareCall(fr, &instr.Call)
		defers := &fr.defers
		if into := fr.get(instr.DeferStack); into != nil {
			defers = into.(**deferred)
		}
		*defers = &deferred{
			fn:    fn,
			args:  args,
			instr: instr,
			tail:  *defers,
		}

	case *ssa.Go:
		fn, args := prepareCall(fr, &instr.Call)
		i, pos := fr.i, instr.Pos()
		sched.spawn(fr, func() { call(i, nil, pos, fn, args) })

	case *ssa.MakeChan:
		sched.nchan++
		fr.set(instr, &ichan{id: sched.nchan, cap: int(asInt64(fr.get(instr.Size)))})

	case *ssa.Alloc:
		var addr *value
		if instr.Heap {
			// new
			addr = new(value)
			fr.set(instr, addr)
		} else {
			// local
			addr = fr.get(instr).(*value)
		}
		jset(addr, zero(mustDeref(instr.Type())))

	case *ssa.MakeSlice:
		slice := make([]value, asInt64(fr.get(instr.Cap)))
		tElt := instr.Type().Underlying().(*types.Slice).Elem()
		for i := range slice {
			slice[i] = zero(tElt)
		}
		fr.set(instr, slice[:asInt64(fr.get(instr.Len))])

	case *ssa.MakeMap:
		var reserve int64
		if instr.Reserve != nil {
			reserve = asInt64(fr.get(instr.Reserve))
		}
		if !fitsInt(reserve, fr.i.sizes) {
			panic(fmt.Sprintf("ssa.MakeMap.Reserve value %d does not fit in int", reserve))
		}
		fr.set(instr, makeMap(instr.Type().Underlying().(*types.Map).Key(), reserve))

	case *ssa.Range:
		fr.set(instr, rangeIter(fr.get(instr.X)))

	case *ssa.Next:
		fr.set(instr, fr.get(instr.Iter).(iter).next())

	case *ssa.FieldAddr:
		fr.set(instr, &(*fr.get(instr.X).(*value)).(structure)[instr.Field])

	case *ssa.Field:
		fr.set(instr, fr.get(instr.X).(structure)[instr.Field])

	case *ssa.IndexAddr:
		x := fr.get(instr.X)
		idx := fr.get(instr.Index)
		ex.curFrame = fr
		switch x := x.(type) {
		case []value:
			fr.set(instr, &x[checkedIndex(idx, len(x))])
		case *value: // *array
			a := (*x).(array)
			fr.set(instr, &a[checkedIndex(idx, len(a))])
		default:
			panic(fmt.Sprintf("unexpected x type in IndexAddr: %T", x))
		}

	case *ssa.Index:
		x := fr.get(instr.X)
		idx := fr.get(instr.Index)

		ex.curFrame = fr
		switch x := x.(type) {
		case array:
			fr.set(instr, x[checkedIndex(idx, len(x))])
		case string:
			fr.set(instr, x[checkedIndex(idx, len(x))])
		default:
			panic(fmt.Sprintf("unexpected x type in Index: %T", x))
		}

	case *ssa.Lookup:
		ex.curFrame = fr
		fr.set(instr, lookup(instr, fr.get(instr.X), fr.get(instr.Index)))

	case *ssa.MapUpdate:
		m := fr.get(instr.Map)
		key := fr.get(instr.Key)
		v := fr.get(instr.Value)
		ex.curFrame = fr
		switch m := m.(type) {
		case *omap:
			if m == nil {
				panic(runtimeError("assignment to entry in nil map"))
			}
			m.insert(key, v)
		default:
			panic(fmt.Sprintf("illegal map type: %T", m))
		}

	case *ssa.TypeAssert:
		fr.set(instr, typeAssert(instr, fr.get(instr.X).(iface)))

	case *ssa.MakeClosure:
		var bindings []value
		for _, binding := range instr.Bindings {
			bindings = append(bindings, fr.get(binding))
		}
		fr.set(instr, &closure{instr.Fn.(*ssa.Function), bindings})

	case *ssa.Phi:
		log.Fatal("unreachable") // phis are processed at block entry

	case *ssa.Select:
		var cases []selCase
		for _, state := range instr.States {
			c := selCase{send: state.Dir != types.RecvOnly}
			if ch := fr.get(state.Chan); ch != nil {
				c.ch = ch.(*ichan)
			}
			if state.Send != nil {
				c.val = fr.get(state.Send)
			}
			cases = append(cases, c)
		}
		chosen, recvV, recvOk := sched.sel(fr, cases, instr.Blocking)
		r := tuple{chosen, recvOk}
		for i, st := range instr.States {
			if st.Dir == types.RecvOnly {
				var v value
				if i == chosen && recvOk {
					v = recvV
				} else {
					v = zero(st.Chan.Type().Underlying().(*types.Chan).Elem())
				}
				r = append(r, v)
			}
		}
		fr.set(instr, r)

	default:
		panic(fmt.Sprintf("unexpected instruction: %T", instr))
	}

	// if val, ok := instr.(ssa.Value); ok {
	// 	fmt.Println(toString(fr.env[val])) // debugging
	// }

	return kNext
}

// prepareCall determines the function value and argument values for a
// function call in a Call, Go or Defer instruction, performing
// interface method lookup if needed.
func prepareCall(fr *frame, call *ssa.CallCommon) (fn value, args []value) {
	v := fr.get(call.Value)
	if call.Method == nil {
		// Function call.
		fn = v
	} else {
		// Interface method invocation.
		recv := v.(iface)
		if recv.t == nil {
			panic("method invoked on nil interface")
		}
		if f := lookupMethod(fr.i, recv.t, call.Method); f == nil {
			// Unreachable in well-typed programs.
			panic(fmt.Sprintf("method set for dynamic type %v does not contain %s", recv.t, call.Method))
		} else {
			fn = f
		}
		args = append(args, recv.v)
	}
	for _, arg := range call.Args {
		args = append(args, fr.get(arg))
	}
	return
}

// call interprets a call to a function (function, builtin or closure)
// fn with arguments args, returning its result.
// callpos is the position of the callsite.
func call(i *interpreter, caller *frame, callpos token.Pos, fn value, args []value) value {
	switch fn := fn.(type) {
	case *ssa.Function:
		if fn == nil {
			panic("call of nil function") // nil of func type
		}
		return callSSA(i, caller, callpos, fn, args, nil)
	case *closure:
		return callSSA(i, caller, callpos, fn.Fn, args, fn.Env)
	case *ssa.Builtin:
		return callBuiltin(caller, fn, args)
	}
	panic(fmt.Sprintf("cannot call %T", fn))
}

func loc(fset *token.FileSet, pos token.Pos) string {
	if pos == token.NoPos {
		return ""
	}
	return " at " + fset.Position(pos).String()
}

// callSSA interprets a call to function fn with arguments args,
// and lexical environment env, returning its result.
// callpos is the position of the callsite.
func callSSA(i *interpreter, caller *frame, callpos token.Pos, fn *ssa.Function, args []value, env []value) value {
	if i.mode&EnableTracing != 0 {
		fset := fn.Prog.Fset
		// TODO(adonovan): fix: loc() lies for external functions.
		fmt.Fprintf(os.Stderr, "Entering %s%s.\n", fn, loc(fset, fn.Pos()))
		suffix := ""
		if caller != nil {
			suffix = ", resuming " + caller.fn.String() + loc(fset, callpos)
		}
		defer fmt.Fprintf(os.Stderr, "Leaving %s%s.\n", fn, suffix)
	}
	fr := &frame{
		i:      i,
		caller: caller, // for panic/recover
		fn:     fn,
	}
	if fn.Parent() == nil {
		name := fn.String()
		if ext := externals[name]; ext != nil {
			if i.mode&EnableTracing != 0 {
				fmt.Fprintln(os.Stderr, "\t(external)")
			}
			return ext(fr, args)
		}
		if fn.Synthetic == "package initializer" && !i.initAllowed(fn.Pkg) {
			return nil
		}
		if fn.Blocks == nil {
			panic(engineLimit{"no code for function: " + name})
		}
		if fn.Pkg != nil && !i.pkgInterpretable(fn.Pkg) {
			panic(engineLimit{"call into non-modelled package function: " + name})
		}
	}
	if !ex.FuncsSeen[fn.String()] {
		ex.FuncsSeen[fn.String()] = true
	}

	// generic function body?
	if fn.TypeParams().Len() > 0 && len(fn.TypeArgs()) == 0 {
		panic("interp requires ssa.BuilderMode to include InstantiateGenerics to execute generics")
	}

	fr.info = infoOf(fn)
	fr.env = make([]value, fr.info.n)
	fr.block = fn.Blocks[0]
	fr.locals = make([]value, len(fn.Locals))
	for i, l := range fn.Locals {
		fr.locals[i] = zero(mustDeref(l.Type()))
		fr.set(l, &fr.locals[i])
	}
	for i, p := range fn.Params {
		fr.set(p, args[i])
	}
	for i, fv := range fn.FreeVars {
		fr.set(fv, env[i])
	}
	for fr.block != nil {
		runFrame(fr)
	}
	// Destroy the locals to avoid accidental use after return.
	for i := range fn.Locals {
		fr.locals[i] = bad{}
	}
	return fr.result
}

// runFrame executes SSA instructions starting at fr.block and
// continuing until a return, a panic, or a recovered panic.
//
// After a panic, runFrame panics.
//
// After a normal return, fr.result contains the result of the call
// and fr.block is nil.
//
// A recovered panic in a function without named return parameters
// (NRPs) becomes a normal return of the zero value of the function's
// result type.
//
// After a recovered panic in a function with NRPs, fr.result is
// undefined and fr.block contains the block at which to resume
// control.
var instrTrace = os.Getenv("GOSYM_INSTRTRACE") != ""

func callerName(fr *frame) string {
	s := ""
	for c := fr.caller; c != nil && len(s) < 300; c = c.caller {
		s += " < " + c.fn.Name()
	}
	return s
}

func runFrame(fr *frame) {
	defer func() {
		if fr.block == nil {
			return // normal return
		}
		if fr.i.mode&DisableRecover != 0 {
			return // let interpreter crash
		}
		fr.panicking = true
		fr.panic = recover()
		switch fr.panic.(type) {
		case pathAbort, engineLimit, deadlockPanic:
			panic(fr.panic) // engine control flow: never visible to target defers
		}
		if fr.i.mode&EnableTracing != 0 {
			fmt.Fprintf(os.Stderr, "Panicking: %T %v.\n", fr.panic, fr.panic)
		}
		fr.runDefers()
		fr.block = fr.fn.Recover
	}()

	for {
		if fr.i.mode&EnableTracing != 0 {
			fmt.Fprintf(os.Stderr, ".%s:\n", fr.block)
		}

		nonPhis := executePhis(fr)
		for _, instr := range nonPhis {
			if fr.i.mode&EnableTracing != 0 {
				if v, ok := instr.(ssa.Value); ok {
					fmt.Fprintln(os.Stderr, "\t", v.Name(), "=", instr)
				} else {
					fmt.Fprintln(os.Stderr, "\t", instr)
				}
			}
			ex.instrs++
			if instrTrace && ex.instrs%2000000 == 0 {
				fmt.Fprintf(os.Stderr, "INSTR %dM in %s (caller %v)\n", ex.instrs/1000000, fr.fn, callerName(fr))
			}
			if ex.instrs > ex.MaxInstr {
				panic(engineLimit{"instruction budget exceeded (unwinding bound)"})
			}
			if visitInstr(fr, instr) == kReturn {
				return
			}
			// Inv: kNext (continue) or kJump (last instr)
		}
	}
}

// executePhis executes the phi-nodes at the start of the current
// block and returns the non-phi instructions.
func executePhis(fr *frame) []ssa.Instruction {
	firstNonPhi := -1
	for i, instr := range fr.block.Instrs {
		if _, ok := instr.(*ssa.Phi); !ok {
			firstNonPhi = i
			break
		}
	}
	// Inv: 0 <= firstNonPhi; every block contains a non-phi.

	nonPhis := fr.block.Instrs[firstNonPhi:]
	if firstNonPhi > 0 {
		phis := fr.block.Instrs[:firstNonPhi]
		// Execute parallel assignment of phis.
		//
		// See "the swap problem" in Briggs et al's "Practical Improvements
		// to the Construction and Destruction of SSA Form" for discussion.
		predIndex := slices.Index(fr.block.Preds, fr.prevBlock)
		fr.phitemps = fr.phitemps[:0]
		for _, phi := range phis {
			phi := phi.(*ssa.Phi)
			if fr.i.mode&EnableTracing != 0 {
				fmt.Fprintln(os.Stderr, "\t", phi.Name(), "=", phi)
			}
			fr.phitemps = append(fr.phitemps, fr.get(phi.Edges[predIndex]))
		}
		for i, phi := range phis {
			fr.set(phi.(*ssa.Phi), fr.phitemps[i])
		}
	}
	return nonPhis
}

// doRecover implements the recover() built-in.
func doRecover(caller *frame) value {
	// recover() must be exactly one level beneath the deferred
	// function (two levels beneath the panicking function) to
	// have any effect.  Thus we ignore both "defer recover()" and
	// "defer f() -> g() -> recover()".
	if caller.i.mode&DisableRecover == 0 &&
		caller != nil && !caller.panicking &&
		caller.caller != nil && caller.caller.panicking {
		caller.caller.panicking = false
		p := caller.caller.panic
		caller.caller.panic = nil

		// TODO(adonovan): support runtime.Goexit.
		switch p := p.(type) {
		case targetPanic:
			// The target program explicitly called panic().
			return p.v
		case runtimeError:
			return iface{caller.i.runtimeErrorString, string(p)}
		case runtime.Error:
			// The interpreter encountered a runtime error.
			return iface{caller.i.runtimeErrorString, strings.TrimPrefix(p.Error(), "runtime error: ")}
		case string:
			// The interpreter explicitly called panic().
			return iface{caller.i.runtimeErrorString, p}
		default:
			panic(fmt.Sprintf("unexpected panic type %T in target call to recover()", p))
		}
	}
	return iface{}
}


// fnInfo numbers the SSA values of a function so that frames can keep their
// environment in a slice.
type fnInfo struct {
	idx map[uintptr]int32
	n   int
}

// vkey is the data pointer of the interface value (all ssa.Value
// implementations are pointers), a much cheaper map key than the interface.
func vkey(v ssa.Value) uintptr {
	return (*[2]uintptr)(unsafe.Pointer(&v))[1]
}

var fnInfos = map[*ssa.Function]*fnInfo{}

func infoOf(fn *ssa.Function) *fnInfo {
	if fi, ok := fnInfos[fn]; ok {
		return fi
	}
	fi := &fnInfo{idx: map[uintptr]int32{}}
	add := func(v ssa.Value) {
		if _, ok := fi.idx[vkey(v)]; !ok {
			fi.idx[vkey(v)] = int32(fi.n)
			fi.n++
		}
	}
	for _, p := range fn.Params {
		add(p)
	}
	for _, fv := range fn.FreeVars {
		add(fv)
	}
	for _, l := range fn.Locals {
		add(l)
	}
	for _, b := range fn.Blocks {
		for _, in := range b.Instrs {
			if v, ok := in.(ssa.Value); ok {
				add(v)
			}
		}
	}
	fnInfos[fn] = fi
	return fi
}

func (fr *frame) set(key ssa.Value, v value) {
	fr.env[fr.info.idx[vkey(key)]] = v
}
