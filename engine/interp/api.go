package interp

// Public API of the gosym engine: load /repo packages (+ overlay harnesses),
// build SSA, run package initialisers concretely, explore harness entries.

import (
	"fmt"
	"go/token"
	"go/types"
	"os"
	"runtime"
	"sort"
	"strings"
	"time"

	"golang.org/x/tools/go/packages"
	"golang.org/x/tools/go/ssa"
	"golang.org/x/tools/go/ssa/ssautil"

	"gosym/smt"
)

type Config struct {
	Dir      string
	Patterns []string
	Overlay  map[string][]byte
	Env      []string
	Solver   string
	Timeout  int // ms per query
	Trace    bool
}

type Machine struct {
	i      *interpreter
	Prog   *ssa.Program
	Pkgs   []*ssa.Package
	inited map[*ssa.Package]bool
	LoadS  float64
}

const repoMod = "github.com/sarchlab/mgpusim/v4"
const akitaMod = "github.com/sarchlab/akita/v4"

// packages whose source is interpreted (others need intrinsics)
var interpStd = map[string]bool{
	"math/bits": true, "container/list": true, "encoding/binary": true, "errors": true,
	"unicode/utf8": true, "sort": true, "slices": true, "cmp": true, "maps": true,
	"math": true, "strings": true, "bytes": true, "strconv": true, "unicode": true,
	"internal/byteorder": true, "internal/bytealg": true, "internal/stringslite": true,
	"container/heap": true, "iter": true, "io": true, "internal/itoa": true, "math/rand": false,
}

// packages whose init() is run
var initStd = map[string]bool{
	"container/list": true, "math/bits": true, "unicode/utf8": true, "cmp": true, "slices": true,
	"strconv": true, "math": true,
}

func isRepoOrAkita(p string) bool {
	return strings.HasPrefix(p, repoMod) || strings.HasPrefix(p, akitaMod)
}

func Load(cfg Config) (*Machine, error) {
	t0 := time.Now()
	pc := &packages.Config{
		Mode:    packages.LoadAllSyntax,
		Dir:     cfg.Dir,
		Overlay: cfg.Overlay,
		Env:     append(os.Environ(), cfg.Env...),
	}
	initial, err := packages.Load(pc, cfg.Patterns...)
	if err != nil {
		return nil, err
	}
	nerr := 0
	packages.Visit(initial, nil, func(p *packages.Package) {
		for _, e := range p.Errors {
			if nerr < 20 {
				fmt.Fprintf(os.Stderr, "load error: %s: %v\n", p.PkgPath, e)
			}
			nerr++
		}
	})
	if nerr > 0 {
		return nil, fmt.Errorf("%d package load errors", nerr)
	}
	prog, pkgs := ssautil.AllPackages(initial, ssa.InstantiateGenerics|ssa.SanityCheckFunctions&0)
	prog.Build()
	i := &interpreter{
		prog:       prog,
		globals:    make(map[*ssa.Global]*value),
		sizes:      &types.StdSizes{WordSize: 8, MaxAlign: 8},
		goroutines: 1,
	}
	if cfg.Trace {
		i.mode |= EnableTracing
	}
	i.initAllow = func(p string) bool { return isRepoOrAkita(p) || initStd[p] }
	i.interpAllow = func(p string) bool { return isRepoOrAkita(p) || interpStd[p] }
	if rp := prog.ImportedPackage("runtime"); rp != nil {
		i.runtimeErrorString = rp.Type("errorString").Object().Type()
	}
	initReflect(i)
	for _, pkg := range prog.AllPackages() {
		for _, m := range pkg.Members {
			if g, ok := m.(*ssa.Global); ok {
				cell := zero(mustDeref(g.Type()))
				i.globals[g] = &cell
			}
		}
	}
	m := &Machine{i: i, Prog: prog, Pkgs: pkgs, inited: map[*ssa.Package]bool{}}
	m.LoadS = time.Since(t0).Seconds()
	return m, nil
}

// InitPackages runs the initialisers of the named packages (and, through
// them, of their allow-listed dependencies) concretely, without journaling.
func (m *Machine) InitPackages(paths []string) error {
	journalOn = false
	ex = newExplorer(nil)
	for _, p := range paths {
		pkg := m.Prog.ImportedPackage(p)
		if pkg == nil {
			return fmt.Errorf("package %s not loaded", p)
		}
		if err := m.runInit(pkg); err != nil {
			return err
		}
	}
	return nil
}

func (m *Machine) runInit(pkg *ssa.Package) (err error) {
	defer func() {
		if r := recover(); r != nil {
			err = fmt.Errorf("init of %s: %s", pkg.Pkg.Path(), panicString(r))
			if os.Getenv("GOSYM_DEBUG") != "" {
				buf := make([]byte, 1<<16)
				n := runtime.Stack(buf, false)
				fmt.Fprintf(os.Stderr, "%s\n", buf[:n])
				for fr := ex.curFrame; fr != nil; fr = fr.caller {
					fmt.Fprintf(os.Stderr, "  in %s\n", fr.fn)
				}
			}
		}
	}()
	call(m.i, nil, token.NoPos, pkg.Func("init"), nil)
	return nil
}

func panicString(r any) string {
	switch p := r.(type) {
	case targetPanic:
		return "panic: " + toString(p.v)
	case runtime.Error:
		return "runtime error: " + p.Error()
	case runtimeError:
		return p.Error()
	case string:
		return "panic: " + p
	case engineLimit:
		return "engine limit: " + p.msg
	case pathAbort:
		return "path abort: " + p.reason
	case error:
		return "error: " + p.Error()
	}
	return fmt.Sprintf("%T: %v", r, r)
}

type ExploreOpts struct {
	Start    [][]Decision // initial prefixes (nil = root)
	Params   map[string]int
	MaxPaths int
	Witnesses int
	MaxConc  int
	MaxInstr int64
	Deadline time.Time
	Verbose  bool
}

type Result struct {
	Entry    string
	Stats    Stats
	Findings []Finding
	Witnesses []Finding
	Samples  []string
	Funcs    []string
	Complete bool
	Pending  [][]Decision // unexplored prefixes when the path budget ran out
	Stubs    []string
	WallS    float64
	SolverS  float64
}

// Explore runs the harness entry (a niladic function) over all paths.
func (m *Machine) Explore(pkgPath, fnName string, solver *smt.Solver, o ExploreOpts) (res Result) {
	pkg := m.Prog.ImportedPackage(pkgPath)
	if pkg == nil {
		panic("package not loaded: " + pkgPath)
	}
	fn := pkg.Func(fnName)
	if fn == nil {
		panic("no function " + fnName + " in " + pkgPath)
	}
	t0 := time.Now()
	s0 := solver.Time
	q0s, q0u, q0k := solver.NSat, solver.NUnsat, solver.NUnknown
	q0f := solver.NFresh
	ex = newExplorer(solver)
	ex.Entry = pkgPath + "." + fnName
	if o.MaxConc > 0 {
		ex.MaxConc = o.MaxConc
	}
	if o.MaxInstr > 0 {
		ex.MaxInstr = o.MaxInstr
	}
	journalOn = true
	base := jmark()
	ex.pending = [][]Decision{nil}
	if o.Start != nil {
		ex.pending = append([][]Decision{}, o.Start...)
	}
	ex.Params = o.Params
	ex.WantWit = o.Witnesses
	complete := true
	for len(ex.pending) > 0 {
		if o.MaxPaths > 0 && ex.Stats.Paths >= o.MaxPaths {
			res.Pending = ex.pending
			break
		}
		if !o.Deadline.IsZero() && o.Deadline.Unix() > 0 && time.Now().After(o.Deadline) {
			res.Pending = ex.pending
			break
		}
		n := len(ex.pending) - 1
		prefix := ex.pending[n]
		ex.pending = ex.pending[:n]
		ex.resetPath(prefix)
		tPath := time.Now()
		m.runPath(fn)
		if d := time.Since(tPath); d > 5*time.Second && os.Getenv("GOSYM_SLOWPATHS") != "" {
			fmt.Fprintf(os.Stderr, "SLOWPATH %.1fs instrs=%d trace=%s\n", d.Seconds(), ex.instrs, ex.traceString())
		}
		jrollback(base)
		ex.Stats.Paths++
		ex.Stats.Instrs += ex.instrs
		if o.Verbose && ex.Stats.Paths%200 == 0 {
			fmt.Fprintf(os.Stderr, "  [%s] paths=%d pending=%d findings=%d\n", fnName, ex.Stats.Paths, len(ex.pending), len(ex.Findings))
		}
	}
	journalOn = false
	ex.Stats.QSat, ex.Stats.QUnsat, ex.Stats.QUnknown = solver.NSat-q0s, solver.NUnsat-q0u, solver.NUnknown-q0k
	ex.Stats.QFresh = solver.NFresh - q0f
	pend := res.Pending
	res = Result{Pending: pend, Entry: ex.Entry, Stats: ex.Stats, Findings: ex.Findings, Witnesses: ex.Witnesses, Samples: ex.Samples, Complete: complete && ex.Stats.Inconclusive == 0,
		WallS: time.Since(t0).Seconds(), SolverS: (solver.Time - s0).Seconds()}
	for f := range ex.FuncsSeen {
		res.Funcs = append(res.Funcs, f)
	}
	sort.Strings(res.Funcs)
	return res
}

func (m *Machine) runPath(fn *ssa.Function) {
	sched = newScheduler()
	defer func() {
		r := recover()
		sched.teardown()
		if r == nil {
			return
		}
		if dl, ok := r.(deadlockPanic); ok {
			site := "deadlock"
			if !ex.violation("deadlock", site, dl.msg) {
				ex.Stats.PathsPruned++
			}
			return
		}
		switch p := r.(type) {
		case pathAbort:
			ex.Stats.PathsPruned++
			return
		case engineLimit:
			where := ""
			if ex.curFrame != nil {
				where = " in " + ex.curFrame.fn.String()
			}
			ex.inconclusive("engine limit: " + p.msg + where)
			return
		}
		// a panic escaping the harness: obligation "no unexpected panic"
		msg := panicString(r)
		site := "panic"
		if ex.curFrame != nil {
			site = "panic in " + ex.curFrame.fn.String()
		}
		if os.Getenv("GOSYM_DEBUG") != "" {
			buf := make([]byte, 1<<16)
			n := runtime.Stack(buf, false)
			fmt.Fprintf(os.Stderr, "PANIC %s\n%s\n", msg, buf[:n])
		}
		if !ex.violation("panic", site, msg) {
			ex.Stats.PathsPruned++
		}
	}()
	call(m.i, nil, token.NoPos, fn, nil)
	if len(ex.Witnesses) < ex.WantWit {
		ex.witness()
	}
}

// checkedIndex performs the bounds check of x[idx] (len n), forking on a
// symbolic index, and returns the concrete index.
func checkedIndex(idx value, n int) int64 {
	if s, ok := idx.(sym); ok {
		c := sctx
		w := s.e.S.W
		e := s.e
		if w < 64 {
			if kindSigned(s.k) {
				e = c.Sext(e, 64)
			} else {
				e = c.Zext(e, 64)
			}
		}
		in := c.BvUlt(e, c.BVC(uint64(n), 64))
		if !ex.branch(in) {
			panic(runtimeError(fmt.Sprintf("index out of range [symbolic] with length %d", n)))
		}
		idx = ex.concretize(s, "symbolic index")
	}
	i := asInt64(idx)
	if i < 0 || i >= int64(n) {
		panic(runtimeError(fmt.Sprintf("index out of range [%d] with length %d", i, n)))
	}
	return i
}

// SmtCtx exposes the term context shared by the interpreter.
func SmtCtx() *smt.Ctx { return sctx }

// TermCount is the size of the hash-consed term table.
func TermCount() int { return len(sctx.Terms) }

// ResetTerms drops all terms (only legal between paths: the rolled-back heap
// holds no symbolic values). The caller must start a fresh solver.
func ResetTerms() { f := sctx.FloatUF; sctx = smt.NewCtx(); sctx.FloatUF = f }

// SetFloatUF selects the uninterpreted-function float encoding (before any term is built).
func SetFloatUF(on bool) { sctx.FloatUF = on }
