#!/bin/bash
# Self-tests of the gosym engine (not property checks):
#  1. random simplifier / known-bits test of the term layer
#  2. cooperative goroutine scheduler on programs with a known verdict
export PATH=/opt/veriftools/go1.26.8/bin:$PATH GOTOOLCHAIN=local GOFLAGS=-mod=mod GOPROXY=off
cd /verif/engine && go test -count=1 ./smt/ || exit 1
cd /verif && out=$(./bin/gosym check ZSCHED -j 4 --no-evidence 2>&1)
fail=0
for want in "schedtest.LostWakeup deadlock" "schedtest.RacyCounter assert" "schedtest.SelfDeadlock deadlock"; do
  echo "$out" | grep -q "$want.*native: REPLAY-\(DEADLOCK\|FAIL\)" || { echo "MISSING expected finding: $want"; fail=1; }
done
for clean in BufferedWakeup Counter PingPong; do
  echo "$out" | grep -q "schedtest\.$clean " && { echo "UNEXPECTED finding in $clean"; fail=1; }
done
[ $fail = 0 ] && echo "selftest ok" || { echo "$out" | tail -20; exit 1; }
