#!/bin/bash
# usage: seedall.sh [ID-n ...]   -- applies every seeded change under /verif/seeded to /repo in turn,
# runs the property's quick check, reverts, and records the outcome in seeded/<ID-n>/result.txt
cd /verif
list="$@"; [ -z "$list" ] && list=$(ls seeded | grep -E '^C[0-9]+-[0-9]+$')
for s in $list; do
  id=${s%-*}
  p=seeded/$s/patch.diff
  [ -f seeded/$s/patch.adapted.diff ] && p=seeded/$s/patch.adapted.diff
  t0=$(date +%s)
  out=$(./seedtest.sh /verif/$p $id 2>&1)
  rc=$(echo "$out" | grep -o 'exit=[0-9]*' | tail -1)
  t1=$(date +%s)
  { echo "patch: $p"; echo "check: gosym check $id -tier quick"; echo "$out" | grep -v "^ M \|^?? " | cut -c1-600 | tail -6; echo "wall: $((t1-t0))s"; } > seeded/$s/result.txt
  echo "$s $rc $(echo "$out" | grep -c '^VIOLATION') violation line(s) $((t1-t0))s"
done
