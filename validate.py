#!/usr/bin/env python3
# validates MANIFEST.json and every evidence file against the schemas
import json, sys, glob, jsonschema
m = json.load(open('/verif/MANIFEST.json'))
jsonschema.validate(m, json.load(open('/root/.vp/MANIFEST.schema.json')))
es = json.load(open('/root/.vp/EVIDENCE.schema.json'))
ok = True
for c in m['checks']:
    try:
        e = json.load(open(c['evidence_file']))
        jsonschema.validate(e, es)
        assert e['level'] == c['level_claimed']['category'], 'level mismatch'
        print('ok', c['property_id'], e['tier'], 'wall', round(e['wall_s'], 1))
    except Exception as ex:
        ok = False
        print('BAD', c['property_id'], str(ex)[:300])
ids = {c['property_id'] for c in m['checks']} | {n['property_id'] for n in m.get('not_applicable', [])}
props = {json.loads(l)['id'] for l in open('/verif/properties.jsonl')}
if ids != props:
    ok = False
    print('BAD coverage of property ids', sorted(props - ids), sorted(ids - props))
sys.exit(0 if ok else 1)
