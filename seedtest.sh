#!/bin/bash
# usage: seedtest.sh <patch.diff> <check id> [extra gosym args]
# applies a seeded change to /repo, runs the quick check, reverts.
P=$1; ID=$2; shift 2
cd /repo || exit 2
if [ -n "$(git status --porcelain)" ]; then echo "REPO DIRTY - refusing (would lose changes)"; exit 4; fi
if ! git apply --check "$P" 2>/dev/null; then
  if ! patch -p1 --dry-run -F3 -s < "$P" >/dev/null; then echo "PATCH DOES NOT APPLY"; exit 3; fi
  patch -p1 -F3 -s < "$P"
else
  git apply "$P"
fi
git status --short | head -5
cd /verif && ./bin/gosym check $ID --no-evidence "$@" 2>&1 | grep -v "^INCONCLUSIVE\|KNOWN-FINDING" | tail -8
rc=${PIPESTATUS[0]}
cd /repo && git checkout -- . && git clean -fdq -- . 2>/dev/null
find /repo -name "*.orig" -o -name "*.rej" | xargs rm -f
echo "exit=$rc"
