package insts

// C13 harnesses: the mgpusim-owned part of kernel loading - header sniffing,
// V2/V3 header and V5 descriptor parsing, descriptor lookup and the metadata
// symbol override - against an independent reading of the AMDHSA code-object
// layouts. (The ELF container itself is std-library I/O.)

import (
	"debug/elf"

	verif "github.com/sarchlab/mgpusim/v4/zzverif"
)

func zzvU16(b []byte) uint16 { return uint16(b[0]) | uint16(b[1])<<8 }
func zzvU32(b []byte) uint32 { return uint32(zzvU16(b)) | uint32(zzvU16(b[2:]))<<16 }
func zzvU64(b []byte) uint64 { return uint64(zzvU32(b)) | uint64(zzvU32(b[4:]))<<32 }

// VerifHeaderAndV2V3: for arbitrary kernel bytes (256-byte prefix fully
// symbolic + a symbolic tail): a 256-byte header is recognised iff it
// genuinely is one (amd_kernel_code_t signature: version 1.0-1.2, machine kind
// 1, machine major 7..9, 64-bit entry offset 256), it is stripped iff
// recognised, and the metadata equals the fields at the documented offsets.
func VerifHeaderAndV2V3() {
	tail := verif.Choice(3) * 4 // 0, 4 or 8 bytes of instructions after the prefix
	short := verif.Choice(2) == 1
	n := 256 + tail
	if short {
		n = 200 // shorter than a header: never one
	}
	data := verif.Bytes(n)
	isHdr := !short &&
		zzvU32(data[0:]) == 1 && zzvU32(data[4:]) <= 2 && zzvU16(data[8:]) == 1 &&
		zzvU16(data[10:]) >= 7 && zzvU16(data[10:]) <= 9 && zzvU64(data[16:]) == 256
	verif.Assert(isV2V3Header(data) == isHdr, "header sniffing differs from the amd_kernel_code_t signature (version, machine kind/major, 64-bit entry offset 256)")
	co := newKernelCodeObjectFromEntireTextSection(data)
	if isHdr {
		verif.Assert(len(co.Data) == n-256, "a genuine 256-byte header was not stripped")
		same := true
		for i := range co.Data {
			same = verif.And(same, co.Data[i] == data[256+i])
		}
		verif.Assert(same, "instruction bytes after the header differ from the file")
		m := co.KernelCodeObjectMeta
		fl := zzvU32(data[56:])
		ok := m.ComputePgmRsrc1 == zzvU32(data[48:]) && m.ComputePgmRsrc2 == zzvU32(data[52:]) &&
			m.PrivateSegmentByteSize == zzvU32(data[60:]) && m.GroupSegmentByteSize == zzvU32(data[64:]) &&
			m.KernargSegmentByteSize == zzvU64(data[72:]) && m.WFSgprCount == zzvU16(data[84:]) && m.WIVgprCount == zzvU16(data[86:]) &&
			m.EnableSgprPrivateSegmentBuffer == (fl&1 != 0) && m.EnableSgprDispatchPtr == (fl&2 != 0) && m.EnableSgprQueuePtr == (fl&4 != 0) &&
			m.EnableSgprKernargSegmentPtr == (fl&8 != 0) && m.EnableSgprDispatchID == (fl&16 != 0) && m.EnableSgprFlatScratchInit == (fl&32 != 0) &&
			m.EnableSgprPrivateSegmentSize == (fl&64 != 0) && m.EnableSgprGridWorkgroupCountX == (fl&128 != 0) &&
			m.EnableSgprGridWorkgroupCountY == (fl&256 != 0) && m.EnableSgprGridWorkgroupCountZ == (fl&512 != 0) &&
			m.MachineVersionMajor == zzvU16(data[10:]) && m.MachineVersionMinor == zzvU16(data[12:]) && m.MachineVersionStepping == zzvU16(data[14:])
		verif.Assert(ok, "V2/V3 metadata differs from the header fields stored in the file")
		verif.Assert(m.KernelCodeEntryByteOffset == 0, "entry offset of a stripped kernel is not 0")
	} else {
		verif.Assert(len(co.Data) == n, "bytes were stripped although they are not a header")
		same := true
		for i := range co.Data {
			same = verif.And(same, co.Data[i] == data[i])
		}
		verif.Assert(same, "instruction bytes differ from the file")
	}
	verif.Observe(uint64(len(co.Data)))
}

// VerifV5Descriptor: the 64-byte kernel descriptor fields land in the metadata.
func VerifV5Descriptor() {
	kd := verif.Bytes(64)
	m := parseV5KernelDescriptor(kd)
	r1 := zzvU32(kd[44:])
	verif.Assert(m.GroupSegmentByteSize == zzvU32(kd[0:]) && m.PrivateSegmentByteSize == zzvU32(kd[4:]) &&
		m.KernargSegmentByteSize == uint64(zzvU32(kd[8:])) && m.KernelCodeEntryByteOffset == zzvU64(kd[16:]),
		"V5 segment sizes / entry offset differ from the descriptor")
	verif.Assert(m.ComputePgmRsrc3 == zzvU32(kd[40:]) && m.ComputePgmRsrc1 == r1, "V5 compute_pgm_rsrc1/3 differ from the descriptor")
	verif.Assert(m.WIVgprCount == uint16(((r1&0x3f)+1)*4) && m.WFSgprCount == uint16((((r1>>6)&0xf)+1)*8), "V5 register counts differ from the granulated counts in compute_pgm_rsrc1")
	// bits of compute_pgm_rsrc2 the loader does not deliberately override
	keep := ^uint32(1 | 0x1f<<1 | 1<<7 | 1<<8 | 3<<11)
	verif.Assert(m.ComputePgmRsrc2&keep == zzvU32(kd[48:])&keep, "V5 compute_pgm_rsrc2 bits that the loader does not override differ from the descriptor")
	verif.Assert(m.EnableSgprKernargSegmentPtr == (zzvU32(kd[8:]) != 0), "kernarg pointer enable does not follow kernarg_size")
}

// VerifSymbolLookup: descriptor lookup and register-count override pick the
// symbols of exactly the requested kernel, whatever the other kernels are
// called (prefix/suffix relatives) and wherever they appear in the table.
func VerifSymbolLookup() {
	names := []string{"gemm", "gemm_old", "xgemm", "im2col", "im2col_2d"}
	want := names[verif.Choice(len(names))]
	// every kernel has its own descriptor and metadata symbols with symbolic values
	rodata := verif.Bytes(64 * len(names))
	rodataAddr := uint64(0x1900)
	f := &elf.File{}
	f.Sections = []*elf.Section{
		{SectionHeader: elf.SectionHeader{Name: ""}},
		{SectionHeader: elf.SectionHeader{Name: ".text", Addr: 0x1000}},
		{SectionHeader: elf.SectionHeader{Name: ".rodata", Addr: rodataAddr}},
	}
	var syms []elf.Symbol
	sg := make([]uint64, len(names))
	vg := make([]uint64, len(names))
	order := verif.Choice(2)
	for k := range names {
		i := k
		if order == 1 {
			i = len(names) - 1 - k
		}
		sg[i], vg[i] = uint64(verif.U8()), uint64(verif.U8())
		syms = append(syms,
			elf.Symbol{Name: names[i] + ".kd", Value: rodataAddr + uint64(64*i), Size: 64, Section: 2},
			elf.Symbol{Name: names[i] + ".numbered_sgpr", Value: sg[i], Section: elf.SHN_ABS},
			elf.Symbol{Name: names[i] + ".num_vgpr", Value: vg[i], Section: elf.SHN_ABS})
	}
	wi := 0
	for i, nme := range names {
		if nme == want {
			wi = i
		}
	}
	got := findV5KernelDescriptor(want, syms, f, f.Sections[2], rodata)
	verif.Assert(got != nil, "the kernel's own descriptor was not found")
	if got == nil {
		return
	}
	ref := parseV5KernelDescriptor(rodata[64*wi : 64*wi+64])
	verif.Assert(got.ComputePgmRsrc1 == ref.ComputePgmRsrc1 && got.GroupSegmentByteSize == ref.GroupSegmentByteSize &&
		got.KernargSegmentByteSize == ref.KernargSegmentByteSize && got.KernelCodeEntryByteOffset == ref.KernelCodeEntryByteOffset,
		"the descriptor of another kernel was used")
	overrideRegisterCountsFromSymbols(got, want, syms)
	s := uint16(sg[wi]) + 2
	s = ((s + 7) / 8) * 8
	v := ((uint16(vg[wi]) + 3) / 4) * 4
	wantS, wantV := ref.WFSgprCount, ref.WIVgprCount
	if s > wantS {
		wantS = s
	}
	if v > wantV {
		wantV = v
	}
	verif.Assert(got.WFSgprCount == wantS && got.WIVgprCount == wantV, "register counts depend on another kernel's metadata symbols or on the symbol order")
}
