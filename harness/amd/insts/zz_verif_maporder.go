package insts

import verif "github.com/sarchlab/mgpusim/v4/zzverif"

func zzvSameRow(a, b *InstType) bool {
	return a.InstName == b.InstName && a.Opcode == b.Opcode && a.Format == b.Format && a.ExeUnit == b.ExeUnit &&
		a.DSTWidth == b.DSTWidth && a.SRC0Width == b.SRC0Width && a.SRC1Width == b.SRC1Width && a.SRC2Width == b.SRC2Width && a.SDSTWidth == b.SDSTWidth
}

// VerifDecodeTableMapOrder (C05): NewDisassembler builds its format list and
// part of its decode tables by ranging over maps. A disassembler built under
// permuted iteration orders must select the same format for every first
// dword (symbolic) and hold the same rows (everything but the internal row
// id) as one built under the canonical order.
func VerifDecodeTableMapOrder() {
	d1 := NewDisassembler()
	verif.MapOrder(true)
	d2 := NewDisassembler()
	verif.MapOrder(false)
	w := verif.U32()
	f1, e1 := d1.matchFormat(w)
	f2, e2 := d2.matchFormat(w)
	verif.Assert((e1 == nil) == (e2 == nil) && f1 == f2, "instruction format selection depends on map iteration order")
	verif.Assert(len(d1.decodeTables) == len(d2.decodeTables), "decode tables differ in size")
	same := true
	n := 0
	for ft, t1 := range d1.decodeTables {
		t2 := d2.decodeTables[ft]
		if t2 == nil || len(t1.insts) != len(t2.insts) {
			same = false
			continue
		}
		for op, r1 := range t1.insts {
			r2 := t2.insts[op]
			if r2 == nil || !zzvSameRow(r1, r2) {
				same = false
			}
			n++
		}
	}
	verif.Assert(same && n > 1000, "decode table rows depend on map iteration order")
}
