package insts

// C04 harnesses: decoder totality, size, prefix independence and field-level
// agreement with an independent reference transcription of the GCN3/CDNA3
// microcode formats (operand code table, field positions, literal/SDWA size
// rules).

import (
	"math"
	"runtime"
	"sort"

	verif "github.com/sarchlab/mgpusim/v4/zzverif"
)

var zzvDis, zzvDisCDNA3 *Disassembler

// every decode-table row, ordered by (format, opcode)
var zzvRows []*InstType

// (an init function, not variable initialisers: FormatTable itself is filled
// by format.go's init, which runs after all package-level variables)
func init() {
	zzvDis = NewDisassembler()
	zzvDisCDNA3 = NewDisassembler()
	zzvDisCDNA3.IsCDNA3 = true
	zzvRows = zzvAllRows()
	for _, r := range zzvRows {
		if zzvSpecialRow(r) {
			zzvSpecial = append(zzvSpecial, r)
		}
	}
}

var zzvSpecial []*InstType

func zzvAllRows() []*InstType {
	var rows []*InstType
	for _, t := range zzvDis.decodeTables {
		for _, it := range t.insts {
			rows = append(rows, it)
		}
	}
	sort.Slice(rows, func(i, j int) bool {
		if rows[i].Format.FormatType != rows[j].Format.FormatType {
			return rows[i].Format.FormatType < rows[j].Format.FormatType
		}
		return rows[i].Opcode < rows[j].Opcode
	})
	return rows
}

// field kinds
const (
	zzvFSrc  = iota // 8/9-bit scalar/vector source operand code (getOperand table)
	zzvFSDst        // 7-bit scalar destination code
	zzvFVReg        // 8-bit VGPR index
	zzvFMisc        // flags, offsets, immediates, modifiers
	zzvFEnum        // small register-number field without an operand-code table (enumerated)
)

type zzvField struct {
	name   string
	lo, hi uint8 // bit positions in the 64-bit instruction word
	kind   int
}

var zzvFields = map[FormatType][]zzvField{
	SOP2: {{"ssrc0", 0, 7, zzvFSrc}, {"ssrc1", 8, 15, zzvFSrc}, {"sdst", 16, 22, zzvFSDst}},
	SOPK: {{"simm16", 0, 15, zzvFMisc}, {"sdst", 16, 22, zzvFSDst}},
	SOP1: {{"ssrc0", 0, 7, zzvFSrc}, {"sdst", 16, 22, zzvFSDst}},
	SOPC: {{"ssrc0", 0, 7, zzvFSrc}, {"ssrc1", 8, 15, zzvFSrc}},
	SOPP: {{"simm16", 0, 15, zzvFMisc}},
	SMEM: {{"sbase", 0, 5, zzvFEnum}, {"sdata", 6, 12, zzvFSDst}, {"rsvd13", 13, 15, zzvFMisc}, {"glc", 16, 16, zzvFMisc}, {"imm", 17, 17, zzvFMisc},
		{"offset", 32, 51, zzvFMisc}, {"rsvd52", 52, 63, zzvFMisc}},
	VOP2: {{"src0", 0, 8, zzvFSrc}, {"vsrc1", 9, 16, zzvFVReg}, {"vdst", 17, 24, zzvFVReg}},
	VOP1: {{"src0", 0, 8, zzvFSrc}, {"vdst", 17, 24, zzvFVReg}},
	VOPC: {{"src0", 0, 8, zzvFSrc}, {"vsrc1", 9, 16, zzvFVReg}},
	VOP3a: {{"vdst", 0, 7, zzvFVReg}, {"abs", 8, 10, zzvFMisc}, {"opsel", 11, 14, zzvFMisc}, {"clamp", 15, 15, zzvFMisc},
		{"src0", 32, 40, zzvFSrc}, {"src1", 41, 49, zzvFSrc}, {"src2", 50, 58, zzvFSrc}, {"omod", 59, 60, zzvFMisc}, {"neg", 61, 63, zzvFMisc}},
	VOP3b: {{"vdst", 0, 7, zzvFVReg}, {"sdst", 8, 14, zzvFSDst}, {"clamp", 15, 15, zzvFMisc},
		{"src0", 32, 40, zzvFSrc}, {"src1", 41, 49, zzvFSrc}, {"src2", 50, 58, zzvFSrc}, {"omod", 59, 60, zzvFMisc}, {"neg", 61, 63, zzvFMisc}},
	DS: {{"offset0", 0, 7, zzvFMisc}, {"offset1", 8, 15, zzvFMisc}, {"gds", 16, 16, zzvFMisc},
		{"addr", 32, 39, zzvFVReg}, {"data0", 40, 47, zzvFVReg}, {"data1", 48, 55, zzvFVReg}, {"vdst", 56, 63, zzvFVReg}},
	FLAT: {{"offset", 0, 12, zzvFMisc}, {"lds", 13, 13, zzvFMisc}, {"seg", 14, 15, zzvFMisc}, {"glc", 16, 16, zzvFMisc}, {"slc", 17, 17, zzvFMisc},
		{"addr", 32, 39, zzvFVReg}, {"data", 40, 47, zzvFVReg}, {"saddr", 48, 54, zzvFMisc}, {"nv", 55, 55, zzvFMisc}, {"vdst", 56, 63, zzvFVReg}},
}

// rows whose opcode is special-cased inside a format decoder are always
// selected, whatever the row stride of the tier
func zzvSpecialRow(r *InstType) bool {
	op := int(r.Opcode)
	in := func(xs ...int) bool {
		for _, x := range xs {
			if x == op {
				return true
			}
		}
		return false
	}
	switch r.Format.FormatType {
	case VOP1:
		return in(2, 4, 15, 16)
	case VOP2:
		return in(23, 24, 36, 37)
	case SMEM:
		return op <= 4 || in(9, 12, 17, 20, 25, 28)
	case SOPP:
		return in(12)
	case DS:
		return in(14, 15, 46, 47, 55, 56, 78, 79, 110, 111, 119, 120)
	case FLAT:
		return in(21, 29, 22, 30, 23, 31) || (op >= 80 && op <= 93)
	case VOP3a:
		return in(944, 945, 946) || op == 255 || op == 256
	case VOP3b:
		return in(281, 284, 480)
	}
	return false
}

// SDWA dword sub-fields (lo, hi)
var zzvSDWAFields = [][2]uint32{{0, 7}, {8, 10}, {11, 12}, {13, 13}, {14, 15}, {16, 18}, {19, 19}, {20, 20}, {21, 21}, {22, 23}, {24, 26}, {27, 27}, {28, 28}, {29, 29}, {30, 31}}

// ---- independent reference of the operand-code table (ISA manual, "SSRC/SRC operand" table) ----

type zzvRefOp struct {
	valid   bool
	typ     OperandType
	reg     RegType
	intVal  int64
	fltVal  float64
	literal bool
}

func zzvRefOperand(code int) zzvRefOp {
	switch {
	case code <= 101:
		return zzvRefOp{valid: true, typ: RegOperand, reg: S0 + RegType(code)}
	case code == 102:
		return zzvRefOp{valid: true, typ: RegOperand, reg: FlatSratchLo}
	case code == 103:
		return zzvRefOp{valid: true, typ: RegOperand, reg: FlatSratchHi}
	case code == 104:
		return zzvRefOp{valid: true, typ: RegOperand, reg: XnackMaskLo}
	case code == 105:
		return zzvRefOp{valid: true, typ: RegOperand, reg: XnackMaskHi}
	case code == 106:
		return zzvRefOp{valid: true, typ: RegOperand, reg: VCCLO}
	case code == 107:
		return zzvRefOp{valid: true, typ: RegOperand, reg: VCCHI}
	case code == 108:
		return zzvRefOp{valid: true, typ: RegOperand, reg: TbaLo}
	case code == 109:
		return zzvRefOp{valid: true, typ: RegOperand, reg: TbaHi}
	case code == 110:
		return zzvRefOp{valid: true, typ: RegOperand, reg: TmaLo}
	case code == 111:
		return zzvRefOp{valid: true, typ: RegOperand, reg: TmaHi}
	case code >= 112 && code <= 123:
		return zzvRefOp{valid: true, typ: RegOperand, reg: Timp0 + RegType(code-112)}
	case code == 124:
		return zzvRefOp{valid: true, typ: RegOperand, reg: M0}
	case code == 126:
		return zzvRefOp{valid: true, typ: RegOperand, reg: EXECLO}
	case code == 127:
		return zzvRefOp{valid: true, typ: RegOperand, reg: EXECHI}
	case code >= 128 && code <= 192:
		return zzvRefOp{valid: true, typ: IntOperand, intVal: int64(code - 128)}
	case code >= 193 && code <= 208:
		return zzvRefOp{valid: true, typ: IntOperand, intVal: -int64(code - 192)}
	case code == 240:
		return zzvRefOp{valid: true, typ: FloatOperand, fltVal: 0.5}
	case code == 241:
		return zzvRefOp{valid: true, typ: FloatOperand, fltVal: -0.5}
	case code == 242:
		return zzvRefOp{valid: true, typ: FloatOperand, fltVal: 1.0}
	case code == 243:
		return zzvRefOp{valid: true, typ: FloatOperand, fltVal: -1.0}
	case code == 244:
		return zzvRefOp{valid: true, typ: FloatOperand, fltVal: 2.0}
	case code == 245:
		return zzvRefOp{valid: true, typ: FloatOperand, fltVal: -2.0}
	case code == 246:
		return zzvRefOp{valid: true, typ: FloatOperand, fltVal: 4.0}
	case code == 247:
		return zzvRefOp{valid: true, typ: FloatOperand, fltVal: -4.0}
	case code == 248:
		return zzvRefOp{valid: true, typ: FloatOperand, fltVal: 1.0 / (2.0 * math.Pi)}
	case code == 251:
		return zzvRefOp{valid: true, typ: RegOperand, reg: VCCZ}
	case code == 252:
		return zzvRefOp{valid: true, typ: RegOperand, reg: EXECZ}
	case code == 253:
		return zzvRefOp{valid: true, typ: RegOperand, reg: SCC}
	case code == 255:
		return zzvRefOp{valid: true, typ: LiteralConstant, literal: true}
	case code >= 256 && code <= 511:
		return zzvRefOp{valid: true, typ: RegOperand, reg: V0 + RegType(code-256)}
	}
	return zzvRefOp{} // reserved: 125, 209-239, 249 (SDWA), 250 (DPP), 254
}

func zzvOperandMatches(o *Operand, r zzvRefOp) bool {
	if o == nil || o.OperandType != r.typ {
		return false
	}
	switch r.typ {
	case RegOperand:
		return o.Register != nil && o.Register.RegType == r.reg
	case IntOperand:
		return o.IntValue == r.intVal
	case FloatOperand:
		return o.FloatValue == r.fltVal
	}
	return true
}

// which decoded operand does a field feed?
func zzvFieldOperand(inst *Inst, ft FormatType, name string) *Operand {
	switch name {
	case "ssrc0", "src0":
		return inst.Src0
	case "ssrc1", "src1", "vsrc1":
		return inst.Src1
	case "src2":
		return inst.Src2
	case "sdst":
		if ft == VOP3b {
			return inst.SDst
		}
		return inst.Dst
	case "vdst":
		return inst.Dst
	case "sdata", "data", "data0":
		return inst.Data
	case "data1":
		return inst.Data1
	case "addr":
		return inst.Addr
	}
	return nil
}

func zzvSameOperand(a, b *Operand) bool {
	if a == nil || b == nil {
		return a == b
	}
	return a.Code == b.Code && a.OperandType == b.OperandType && a.Register == b.Register && a.RegCount == b.RegCount &&
		a.IntValue == b.IntValue && (a.FloatValue == b.FloatValue) && a.LiteralConstant == b.LiteralConstant
}

func zzvSameInst(a, b *Inst) bool {
	return a.Format == b.Format && a.InstType == b.InstType && a.ByteSize == b.ByteSize &&
		zzvSameOperand(a.Src0, b.Src0) && zzvSameOperand(a.Src1, b.Src1) && zzvSameOperand(a.Src2, b.Src2) &&
		zzvSameOperand(a.Dst, b.Dst) && zzvSameOperand(a.SDst, b.SDst) && zzvSameOperand(a.Addr, b.Addr) &&
		zzvSameOperand(a.Data, b.Data) && zzvSameOperand(a.Data1, b.Data1) && zzvSameOperand(a.Base, b.Base) &&
		zzvSameOperand(a.Offset, b.Offset) && zzvSameOperand(a.SImm16, b.SImm16) && zzvSameOperand(a.SAddr, b.SAddr) &&
		a.Abs == b.Abs && a.Omod == b.Omod && a.Neg == b.Neg && a.OpSel == b.OpSel && a.OpSelHi == b.OpSelHi &&
		a.Offset0 == b.Offset0 && a.Offset1 == b.Offset1 && a.SystemLevelCoherent == b.SystemLevelCoherent &&
		a.GlobalLevelCoherent == b.GlobalLevelCoherent && a.TextureFailEnable == b.TextureFailEnable && a.Imm == b.Imm &&
		a.Clamp == b.Clamp && a.GDS == b.GDS && a.VMCNT == b.VMCNT && a.LKGMCNT == b.LKGMCNT && a.IsSdwa == b.IsSdwa &&
		a.DstSel == b.DstSel && a.DstUnused == b.DstUnused && a.Src0Sel == b.Src0Sel && a.Src1Sel == b.Src1Sel &&
		a.Src0Neg == b.Src0Neg && a.Src0Abs == b.Src0Abs && a.Src1Neg == b.Src1Neg && a.Src1Abs == b.Src1Abs &&
		a.Src2Neg == b.Src2Neg && a.Src2Abs == b.Src2Abs
}

// zzvDecode calls Decode and classifies the outcome:
// 0 = (inst,nil), 1 = (nil,err), 2 = explicit diagnostic panic (log.Panic*), 3 = memory fault (runtime error)
func zzvDecode(d *Disassembler, buf []byte) (inst *Inst, outcome int) {
	defer func() {
		if r := recover(); r != nil {
			inst = nil
			if _, isRT := r.(runtime.Error); isRT {
				outcome = 3
			} else {
				outcome = 2
			}
		}
	}()
	in, err := d.Decode(buf)
	if err != nil {
		if in != nil {
			return nil, 4
		}
		return nil, 1
	}
	if in == nil {
		return nil, 4
	}
	return in, 0
}

func zzvPut(buf []byte, lo, hi uint8, v uint64) {
	// OR a field value (already masked) into the little-endian 64-bit word
	w := v << lo
	for i := 0; i < 8 && i < len(buf); i++ {
		buf[i] |= byte(w >> (8 * uint(i)))
	}
}

func zzvLiteralFormats(ft FormatType) bool {
	switch ft {
	case SOP2, SOP1, SOPC, VOP2, VOP1, VOPC:
		return true
	}
	return false
}

// VerifDecodeField: for one decode-table row, one field (or all flag/offset
// fields together) symbolic, the other operand fields fixed; trailing bytes
// symbolic; buffer length from {base, base+4, base+8}.
func VerifDecodeField() {
	stride := verif.Param("rowStride", 1)
	nStride := (len(zzvRows) + stride - 1) / stride
	var row *InstType
	if stride == 1 {
		row = zzvRows[verif.Choice(nStride)]
	} else if c := verif.Choice(nStride + len(zzvSpecial)); c < nStride {
		row = zzvRows[c*stride]
	} else {
		row = zzvSpecial[c-nStride]
	}
	d := zzvDis
	f := row.Format
	ft := f.FormatType
	if ft == FLAT && verif.Choice(2) == 1 {
		d = zzvDisCDNA3 // the architecture flag only influences FLAT decoding
	}
	fields := zzvFields[ft]
	which := verif.Choice(len(fields) + 1) // last = all misc fields together
	base := f.ByteSizeExLiteral
	L := base + 4*verif.Choice(3)
	other := 0 // the non-varied operand fields are all 0 (s0/v0) or, in the thorough tier, also all 1
	if verif.Param("others", 1) == 2 {
		other = verif.Choice(2)
	}

	word := make([]byte, 8)
	zzvPut(word, 0, 0, uint64(f.Encoding))
	zzvPut(word, f.OpcodeLow, f.OpcodeHigh, uint64(row.Opcode)&((1<<(f.OpcodeHigh-f.OpcodeLow+1))-1))
	var symVal uint64
	symField := -1
	for i, fl := range fields {
		width := fl.hi - fl.lo + 1
		mask := uint64(1)<<width - 1
		switch {
		case i == which:
			if fl.kind != zzvFMisc {
				// operand-code fields are enumerated exhaustively (<= 512 codes):
				// the register tables are Go maps, so each code is its own path anyway
				symVal = uint64(verif.Choice(1 << width))
			} else {
				symVal = verif.U64() & mask
			}
			symField = i
			zzvPut(word, fl.lo, fl.hi, symVal)
		case which == len(fields) && fl.kind == zzvFMisc:
			zzvPut(word, fl.lo, fl.hi, verif.U64()&mask)
		case fl.kind != zzvFMisc:
			zzvPut(word, fl.lo, fl.hi, uint64(other))
		}
	}
	buf := make([]byte, L)
	copy(buf, word[:base])
	tail := verif.Bytes(L - base)
	copy(buf[base:], tail)
	if ft == VOP2 && symField >= 0 && fields[symField].name == "src0" && symVal == 249 && L >= base+4 {
		// SDWA dword: the decoder switches on ten sub-fields; vary one sub-field
		// at a time (the others zero) instead of their cross product
		sub := zzvSDWAFields[verif.Choice(len(zzvSDWAFields))]
		m := uint32(1)<<(sub[1]-sub[0]+1) - 1
		dw := (verif.U32() & m) << sub[0]
		buf[base], buf[base+1], buf[base+2], buf[base+3] = byte(dw), byte(dw>>8), byte(dw>>16), byte(dw>>24)
	}

	inst, outcome := zzvDecode(d, buf)
	tag := f.FormatName + "." + row.InstName
	if symField >= 0 {
		tag += " field " + fields[symField].name
	} else {
		tag += " flags"
	}
	if outcome == 3 && symField >= 0 && (fields[symField].kind == zzvFSrc || fields[symField].kind == zzvFSDst) {
		r := zzvRefOperand(int(symVal))
		if !r.valid {
			verif.Fail("memory fault in Decode on a reserved operand code (the operand-table error is discarded): " + tag)
			return
		}
	}
	verif.Assert(outcome != 3, "memory fault (nil dereference / out-of-range) in Decode: "+tag)
	verif.Assert(outcome != 4, "Decode returned neither exactly an instruction nor exactly an error: "+tag)
	if outcome != 0 {
		// undecodable: must not be a well-formed supported encoding
		if symField >= 0 && fields[symField].kind == zzvFSrc && L >= base+4 {
			r := zzvRefOperand(int(symVal))
			sdwa := (ft == VOP2) && symVal == 249
			verif.Assert(!r.valid || sdwa || outcome == 2, "a well-formed encoding was rejected: "+tag)
		}
		return
	}
	verif.Cover("decoded " + f.FormatName)

	// ---- size ----
	verif.Assert(inst.ByteSize <= L, "decoded instruction is longer than the buffer: "+tag)
	want := base
	if zzvLiteralFormats(ft) && symField >= 0 && fields[symField].kind == zzvFSrc && symVal == 255 {
		want += 4
	}
	if ft == VOP2 && symField >= 0 && fields[symField].name == "src0" && symVal == 249 {
		want += 4 // SDWA dword
	}
	if ft == VOP2 && (row.Opcode == 23 || row.Opcode == 24 || row.Opcode == 36 || row.Opcode == 37) {
		want += 4 // trailing K constant
	}
	verif.Assert(inst.ByteSize == want, "mis-sized instruction: "+tag)
	verif.Assert(inst.InstType != nil && inst.InstName == row.InstName && inst.Opcode == row.Opcode && inst.Format == f, "decoded to a different opcode/format than encoded: "+tag)

	// ---- the varied operand field decodes to the reference operand ----
	if symField >= 0 {
		fl := fields[symField]
		op := zzvFieldOperand(inst, ft, fl.name)
		switch fl.kind {
		case zzvFSrc, zzvFSDst:
			if op != nil && !(ft == VOP2 && fl.name == "src0" && symVal == 249) {
				r := zzvRefOperand(int(symVal))
				verif.Assert(r.valid, "a reserved operand code was accepted: "+tag)
				verif.Assert(zzvOperandMatches(op, r), "operand differs from the ISA operand-code table: "+tag)
				if r.literal && inst.ByteSize == base+4 {
					lit := uint32(buf[base]) | uint32(buf[base+1])<<8 | uint32(buf[base+2])<<16 | uint32(buf[base+3])<<24
					verif.Assert(op.LiteralConstant == lit, "literal constant differs from the trailing dword: "+tag)
				}
			}
		case zzvFVReg:
			if (ft == VOP3a && row.Opcode <= 255 || ft == VOP1 && row.Opcode == 2) && fl.name == "vdst" {
				// VOPC promoted to VOP3a: the field is a scalar destination code
				r := zzvRefOperand(int(symVal))
				verif.Assert(r.valid && zzvOperandMatches(op, r), "scalar destination of a VOP3a compare differs from the ISA operand-code table: "+tag)
			} else if op != nil {
				verif.Assert(op.OperandType == RegOperand && op.Register != nil && op.Register.RegType == V0+RegType(symVal),
					"vector register index differs from the encoded field: "+tag)
			}
		}
	}

	// ---- flag / offset / modifier fields decode as the microcode-format tables say ----
	var w64 uint64
	for i := 0; i < base && i < 8; i++ {
		w64 |= uint64(buf[i]) << (8 * uint(i))
	}
	zzvCheckMisc(d, inst, ft, row, w64, tag)

	// ---- bytes beyond ByteSize never influence the result ----
	if inst.ByteSize < L {
		buf2 := make([]byte, L)
		copy(buf2, buf[:inst.ByteSize])
		copy(buf2[inst.ByteSize:], verif.Bytes(L-inst.ByteSize))
		inst2, outcome2 := zzvDecode(d, buf2)
		verif.Assert(outcome2 == 0 && inst2 != nil, "bytes beyond the reported length changed decodability: "+tag)
		if inst2 != nil {
			verif.Assert(zzvSameInst(inst, inst2), "bytes beyond the reported length changed the decoded instruction: "+tag)
		}
	}
	verif.Observe(uint64(inst.ByteSize))
}

func zzvBits(w uint64, lo, hi uint) uint64 { return (w >> lo) & (uint64(1)<<(hi-lo+1) - 1) }

func zzvIsIntOp(o *Operand, v int64) bool {
	return o != nil && o.OperandType == IntOperand && o.IntValue == v
}

// zzvCheckMisc is the reference decoding of the non-operand fields (GCN3 ISA
// manual ch. 12 "Microcode formats", CDNA3 ISA ch. 12 for the FLAT offset).
func zzvCheckMisc(d *Disassembler, inst *Inst, ft FormatType, row *InstType, w uint64, tag string) {
	b := func(pos uint) bool { return zzvBits(w, pos, pos) != 0 }
	switch ft {
	case SOPK:
		verif.Assert(zzvIsIntOp(inst.SImm16, int64(zzvBits(w, 0, 15))), "SIMM16 differs from bits 15:0: "+tag)
	case SOPP:
		verif.Assert(zzvIsIntOp(inst.SImm16, int64(zzvBits(w, 0, 15))), "SIMM16 differs from bits 15:0: "+tag)
		if row.Opcode == 12 { // s_waitcnt: vm_cnt = simm16[3:0], lgkm_cnt = simm16[11:8]
			verif.Assert(inst.VMCNT == int(zzvBits(w, 0, 3)), "s_waitcnt vm_cnt differs from simm16[3:0]: "+tag)
			verif.Assert(inst.LKGMCNT == int(zzvBits(w, 8, 11)), "s_waitcnt lgkm_cnt differs from simm16[11:8]: "+tag)
		}
	case SMEM:
		verif.Assert(inst.GlobalLevelCoherent == b(16), "SMEM GLC differs from bit 16: "+tag)
		verif.Assert(inst.Imm == b(17), "SMEM IMM differs from bit 17: "+tag)
		sb := int(zzvBits(w, 0, 5)) << 1
		if sb+1 <= 101 {
			verif.Assert(inst.Base != nil && inst.Base.OperandType == RegOperand && inst.Base.Register == Regs[S0+RegType(sb)] && inst.Base.RegCount == 2,
				"SMEM SBASE is not the SGPR pair s[2*sbase:2*sbase+1]: "+tag)
		}
		off := zzvBits(w, 32, 51)
		if b(17) {
			verif.Assert(zzvIsIntOp(inst.Offset, int64(off)), "SMEM immediate offset differs from bits 51:32: "+tag)
		} else if off <= 101 {
			verif.Assert(inst.Offset != nil && inst.Offset.OperandType == RegOperand && inst.Offset.Register == Regs[S0+RegType(off)],
				"SMEM offset register differs from the encoded SGPR number: "+tag)
		}
		wantCnt := -1
		switch row.Opcode {
		case 0, 8, 16, 24:
			wantCnt = 1
		case 1, 9, 17, 25:
			wantCnt = 2
		case 2, 10, 18, 26:
			wantCnt = 4
		case 3, 11:
			wantCnt = 8
		case 4, 12:
			wantCnt = 16
		}
		if wantCnt > 0 && inst.Data != nil && inst.Data.OperandType == RegOperand {
			c := inst.Data.RegCount
			if c == 0 {
				c = 1
			}
			verif.Assert(c == wantCnt, "SMEM data width (RegCount) differs from the opcode's dword count: "+tag)
		}
	case DS:
		o0, o1 := uint32(zzvBits(w, 0, 7)), uint32(zzvBits(w, 8, 15))
		two := false // two-offset forms: *2, *2st64
		switch row.Opcode {
		case 14, 15, 46, 47, 55, 56, 78, 79, 110, 111, 119, 120:
			two = true
		}
		if two {
			verif.Assert(inst.Offset0 == o0 && inst.Offset1 == o1, "DS offset0/offset1 differ from bits 7:0 / 15:8: "+tag)
		} else {
			verif.Assert(inst.Offset0 == o0|o1<<8, "DS 16-bit offset differs from bits 15:0: "+tag)
		}
		verif.Assert(inst.GDS == b(16), "DS GDS flag differs from bit 16: "+tag)
	case FLAT:
		raw := uint32(zzvBits(w, 0, 12))
		want := raw
		if raw&0x1000 != 0 {
			want = raw | 0xffffe000
		}
		verif.Assert(inst.Offset0 == want, "FLAT offset differs from the sign-extended 13-bit field: "+tag)
		verif.Assert(inst.GlobalLevelCoherent == b(16), "FLAT GLC differs from bit 16: "+tag)
		verif.Assert(inst.SystemLevelCoherent == b(17), "FLAT SLC differs from bit 17: "+tag)
		sa := int64(zzvBits(w, 48, 54))
		verif.Assert(zzvIsIntOp(inst.SAddr, sa), "FLAT SADDR differs from bits 54:48: "+tag)
		if inst.Addr != nil {
			wantCnt := 2 // 64-bit VGPR address when SADDR is off
			if sa != 0x7f && (d.IsCDNA3 || sa != 0) {
				wantCnt = 1 // 32-bit VGPR offset added to an SGPR base
			}
			verif.Assert(inst.Addr.RegCount == wantCnt, "FLAT address width does not follow SADDR: "+tag)
		}
		wantD := 1
		switch {
		case row.Opcode == 21 || row.Opcode == 29 || (row.Opcode >= 80 && row.Opcode <= 93):
			wantD = 2
		case row.Opcode == 22 || row.Opcode == 30:
			wantD = 3
		case row.Opcode == 23 || row.Opcode == 31:
			wantD = 4
		}
		if inst.Data != nil && inst.Dst != nil {
			cd, ct := inst.Data.RegCount, inst.Dst.RegCount
			if cd == 0 {
				cd = 1
			}
			if ct == 0 {
				ct = 1
			}
			verif.Assert(cd == wantD && ct == wantD, "FLAT data width (RegCount) differs from the opcode's dword count: "+tag)
		}
	case VOP3a:
		abs, neg := int(zzvBits(w, 8, 10)), int(zzvBits(w, 61, 63))
		verif.Assert(inst.Abs == abs && inst.Src0Abs == (abs&1 != 0) && inst.Src1Abs == (abs&2 != 0) && inst.Src2Abs == (abs&4 != 0),
			"VOP3a ABS differs from bits 10:8: "+tag)
		verif.Assert(inst.Neg == neg && inst.Src0Neg == (neg&1 != 0) && inst.Src1Neg == (neg&2 != 0) && inst.Src2Neg == (neg&4 != 0),
			"VOP3a NEG differs from bits 63:61: "+tag)
		verif.Assert(inst.Omod == int(zzvBits(w, 59, 60)), "VOP3a OMOD differs from bits 60:59: "+tag)
		verif.Assert(inst.Clamp == b(15), "VOP3a CLAMP differs from bit 15: "+tag)
	case VOP3b:
		neg := int(zzvBits(w, 61, 63))
		verif.Assert(inst.Neg == neg, "VOP3b NEG differs from bits 63:61: "+tag)
		verif.Assert(inst.Omod == int(zzvBits(w, 59, 60)), "VOP3b OMOD differs from bits 60:59: "+tag)
		verif.Assert(inst.Clamp == b(15), "VOP3b CLAMP differs from bit 15: "+tag)
	}
}

// ---- exported helpers for the ALU harnesses (other packages) ----

// ZzvRows returns every decode-table row ordered by (format, opcode).
func ZzvRows() []*InstType { return zzvRows }

// ZzvEncode builds the 8-byte little-endian instruction word of a row with the
// given field values (fields not mentioned are zero).
func ZzvEncode(row *InstType, vals map[string]uint64) []byte {
	f := row.Format
	word := make([]byte, 12)
	zzvPut(word, 0, 0, uint64(f.Encoding))
	zzvPut(word, f.OpcodeLow, f.OpcodeHigh, uint64(row.Opcode)&((1<<(f.OpcodeHigh-f.OpcodeLow+1))-1))
	for _, fl := range zzvFields[f.FormatType] {
		if v, ok := vals[fl.name]; ok {
			zzvPut(word, fl.lo, fl.hi, v&(uint64(1)<<(fl.hi-fl.lo+1)-1))
		}
	}
	return word
}

// ZzvDecode decodes with the GCN3 or CDNA3 flavour of the shared decoder.
func ZzvDecode(buf []byte, cdna3 bool) (*Inst, error) {
	if cdna3 {
		return zzvDisCDNA3.Decode(buf)
	}
	return zzvDis.Decode(buf)
}
