package kernels

// C08 harnesses: the dispatch grid is partitioned exactly into work-groups
// (cursor step of NextWG, announced count) and every work-group into
// wavefronts and lanes (spawnWorkItems + formWavefronts).

import (
	verif "github.com/sarchlab/mgpusim/v4/zzverif"
)

// small work-group shapes for the cursor harness (spawn cost is irrelevant there)
var zzvSmallWG = [][3]int{{1, 1, 1}, {3, 2, 1}, {4, 2, 2}, {2, 1, 1}, {1, 3, 2}, {5, 1, 3}, {1, 1, 1}}

func zzvCeilDiv(a, b int) int { return (a + b - 1) / b }

// VerifNextWGStep: from an arbitrary valid cursor of an arbitrary grid
// (sizes 1..2^20 per dimension, solver-decided), one NextWG returns the
// work-group at the cursor with the clipped size and advances the cursor to
// its lexicographic successor; at the end it returns nil. NumWG equals the
// product of the per-dimension ceilings. (Inductive step: any number of calls.)
func VerifNextWGStep() {
	sh := zzvSmallWG[1+verif.Choice(verif.Param("smallShapes", len(zzvSmallWG)-1))]
	// one dimension has a symbolic extent (1..2^20); the other two take small
	// concrete extents around the work-group size (1, w, w+1, 3w-1), so that the
	// announced product is symbolic x constant
	symDim := verif.Choice(3)
	var g [3]uint32
	for d := 0; d < 3; d++ {
		if d == symDim {
			g[d] = verif.U32()
			verif.Assume(verif.And(g[d] >= 1, g[d] <= 1<<20))
		} else {
			w := uint32(sh[d])
			g[d] = []uint32{w + 1, 1, w, 3*w - 1}[verif.Choice(verif.Param("extents", 4))]
			if g[d] == 0 {
				g[d] = 1
			}
		}
	}
	gx, gy, gz := g[0], g[1], g[2]
	pkt := &HsaKernelDispatchPacket{WorkgroupSizeX: uint16(sh[0]), WorkgroupSizeY: uint16(sh[1]), WorkgroupSizeZ: uint16(sh[2]),
		GridSizeX: gx, GridSizeY: gy, GridSizeZ: gz}
	b := &gridBuilderImpl{}
	b.SetKernel(KernelLaunchInfo{Packet: pkt})
	nx, ny, nz := zzvCeilDiv(int(gx), sh[0]), zzvCeilDiv(int(gy), sh[1]), zzvCeilDiv(int(gz), sh[2])
	verif.Assert(b.NumWG() == nx*ny*nz, "announced number of work-groups differs from ceil(gx/wx)*ceil(gy/wy)*ceil(gz/wz)")

	// arbitrary valid cursor, or the end position
	var cur [3]int
	n3 := [3]int{nx, ny, nz}
	atEnd := verif.Choice(2) == 1
	if !atEnd {
		for d := 0; d < 3; d++ {
			if d == symDim {
				cur[d] = verif.Int()
				verif.Assume(verif.And(cur[d] >= 0, cur[d] < n3[d]))
			} else {
				cur[d] = verif.Choice(n3[d]) // concrete and small
			}
		}
	}
	xi, yi, zi := cur[0], cur[1], cur[2]
	if atEnd {
		xi, yi, zi = 0, 0, nz
	}
	b.xid, b.yid, b.zid = xi, yi, zi
	wg := b.NextWG()
	if atEnd {
		verif.Assert(wg == nil, "NextWG produced a work-group beyond the grid")
		return
	}
	verif.Assert(wg != nil, "NextWG returned nil although work-groups remain")
	if wg == nil {
		return
	}
	verif.Assert(wg.IDX == xi && wg.IDY == yi && wg.IDZ == zi, "NextWG did not return the work-group at the cursor")
	wantX := verif.IteInt(int(gx)-xi*sh[0] < sh[0], int(gx)-xi*sh[0], sh[0])
	wantY := verif.IteInt(int(gy)-yi*sh[1] < sh[1], int(gy)-yi*sh[1], sh[1])
	wantZ := verif.IteInt(int(gz)-zi*sh[2] < sh[2], int(gz)-zi*sh[2], sh[2])
	verif.Assert(wg.CurrSizeX == wantX && wg.CurrSizeY == wantY && wg.CurrSizeZ == wantZ, "work-group is not clipped to the grid (CurrSize != min(size, remaining))")
	verif.Assert(wg.SizeX == sh[0] && wg.SizeY == sh[1] && wg.SizeZ == sh[2], "work-group does not carry the dispatch's work-group size")
	// lexicographic successor (x fastest)
	sx, sy, sz := xi+1, yi, zi
	if sx == nx {
		sx, sy = 0, yi+1
		if sy == ny {
			sy, sz = 0, zi+1
		}
	}
	verif.Assert(b.xid == sx && b.yid == sy && b.zid == sz, "cursor did not advance to the lexicographic successor")
	verif.Assert(len(wg.WorkItems) == wg.CurrSizeX*wg.CurrSizeY*wg.CurrSizeZ, "number of spawned work-items differs from the clipped volume")
	verif.Observe(uint64(wg.CurrSizeX))
}

// work-group shapes for the wavefront harness (product <= 256)
var zzvShapes = [][3]int{{64, 1, 1}, {256, 1, 1}, {16, 16, 1}, {48, 4, 1}, {24, 3, 2}, {7, 5, 3}, {96, 2, 1}, {32, 8, 1},
	{8, 8, 4}, {1, 1, 1}, {63, 1, 1}, {65, 1, 1}, {128, 2, 1}, {10, 10, 2}, {3, 3, 3}, {64, 2, 2}, {100, 1, 1}, {33, 3, 1},
	{5, 51, 1}, {2, 2, 64}, {1, 64, 2}, {17, 15, 1}, {4, 4, 4}, {192, 1, 1}}

// VerifFormWavefronts: for a work-group shape and every clipped size
// 1 <= CurrSize <= Size (forked by the solver from symbolic sizes), the enabled
// lanes of the formed wavefronts, decoded as FirstWiFlatID+lane, are exactly
// the work-items of the clipped box, each once; nothing outside is enabled.
func VerifFormWavefronts() {
	nShapes := verif.Param("shapes", len(zzvShapes))
	sh := zzvShapes[verif.Choice(nShapes)]
	cx, cy, cz := verif.Int(), verif.Int(), verif.Int()
	verif.Assume(verif.And(verif.And(cx >= 1, cx <= sh[0]), verif.And(verif.And(cy >= 1, cy <= sh[1]), verif.And(cz >= 1, cz <= sh[2]))))
	// the builder's loops compare against the clipped sizes: concretise them (all values are explored)
	cx, cy, cz = int(verif.Concretize(uint64(cx))), int(verif.Concretize(uint64(cy))), int(verif.Concretize(uint64(cz)))
	wg := NewWorkGroup()
	wg.SizeX, wg.SizeY, wg.SizeZ = sh[0], sh[1], sh[2]
	wg.CurrSizeX, wg.CurrSizeY, wg.CurrSizeZ = cx, cy, cz
	b := &gridBuilderImpl{packet: &HsaKernelDispatchPacket{}}
	b.spawnWorkItems(wg)
	b.formWavefronts(wg)

	covered := make([]int, sh[0]*sh[1]*sh[2])
	for _, wf := range wg.Wavefronts {
		verif.Assert(wf.WG == wg, "wavefront does not point to its work-group")
		for lane := 0; lane < 64; lane++ {
			if wf.InitExecMask&(1<<uint(lane)) == 0 {
				continue
			}
			flat := wf.FirstWiFlatID + lane
			verif.Assert(flat >= 0 && flat < len(covered), "an enabled lane maps outside the work-group")
			if flat < 0 || flat >= len(covered) {
				continue
			}
			x, y, z := flat%sh[0], flat/sh[0]%sh[1], flat/(sh[0]*sh[1])
			verif.Assert(x < cx && y < cy && z < cz, "a lane is enabled for a coordinate outside the (clipped) work-group")
			covered[flat]++
		}
	}
	for z := 0; z < cz; z++ {
		for y := 0; y < cy; y++ {
			for x := 0; x < cx; x++ {
				n := covered[x+y*sh[0]+z*sh[0]*sh[1]]
				verif.Assert(n == 1, "a work-item of the work-group is executed by no lane or by more than one lane")
			}
		}
	}
}

// VerifFilteredCount: with a work-group filter that accepts a contiguous range
// [lo,hi) of row-major flattened work-group ids (as the multi-GPU driver split
// does), the announced NumWG equals the number of work-groups NextWG produces,
// each produced group is accepted, none is produced twice, and the count is
// the size of the range.
func VerifFilteredCount() {
	dims := [][3]int{{4, 4, 1}, {2, 3, 2}, {5, 1, 1}, {1, 4, 2}, {3, 3, 3}}
	d := dims[verif.Choice(verif.Param("filterDims", len(dims)))]
	sh := [3]int{2, 2, 1}
	pkt := &HsaKernelDispatchPacket{WorkgroupSizeX: uint16(sh[0]), WorkgroupSizeY: uint16(sh[1]), WorkgroupSizeZ: uint16(sh[2]),
		GridSizeX: uint32(d[0]*sh[0] - 1), GridSizeY: uint32(d[1] * sh[1]), GridSizeZ: uint32(d[2] * sh[2])}
	total := d[0] * d[1] * d[2]
	lo, hi := verif.Int(), verif.Int()
	verif.Assume(verif.And(verif.And(lo >= 0, lo <= hi), hi <= total))
	filter := func(p *HsaKernelDispatchPacket, wg *WorkGroup) bool {
		id := wg.IDX + wg.IDY*d[0] + wg.IDZ*d[0]*d[1]
		return id >= lo && id < hi
	}
	b := &gridBuilderImpl{}
	b.SetKernel(KernelLaunchInfo{Packet: pkt, WGFilter: filter})
	announced := b.NumWG()
	verif.Assert(announced == hi-lo, "announced number of work-groups differs from the size of the filter's range")
	seen := make([]bool, total)
	produced := 0
	for i := 0; i <= total; i++ {
		wg := b.NextWG()
		if wg == nil {
			break
		}
		id := wg.IDX + wg.IDY*d[0] + wg.IDZ*d[0]*d[1]
		verif.Assert(id >= lo && id < hi, "NextWG produced a work-group the filter rejects")
		verif.Assert(id >= 0 && id < total && !seen[id], "NextWG produced a work-group twice or outside the grid")
		if id >= 0 && id < total {
			seen[id] = true
		}
		produced++
	}
	verif.Assert(produced == announced, "announced number of work-groups differs from the number produced")
	verif.Assert(b.NextWG() == nil, "NextWG keeps producing after the grid is exhausted")
}
