package driver

// C12 harnesses: command queues.

import (
	"github.com/sarchlab/akita/v4/mem/mem"
	"github.com/sarchlab/akita/v4/mem/vm"
	"github.com/sarchlab/akita/v4/sim"
	"github.com/sarchlab/mgpusim/v4/amd/kernels"
	"github.com/sarchlab/mgpusim/v4/amd/protocol"
	verif "github.com/sarchlab/mgpusim/v4/zzverif"
	"github.com/sarchlab/mgpusim/v4/zzverif/simstub"
)

func zzvDriver() *Driver {
	engine := sim.NewSerialEngine()
	return MakeBuilder().WithEngine(engine).WithFreq(1 * sim.GHz).WithLog2PageSize(30).
		WithPageTable(vm.NewPageTable(30)).WithGlobalStorage(mem.NewStorage(1 << 20)).
		WithMagicMemoryCopyMiddleware().Build("Driver")
}

// VerifDrain: an application thread enqueues commands and waits for the queue
// to drain, twice, against the real driver thread (runAsync), the engine
// threads it starts (runEngine) and the real serial engine; every interleaving
// of their synchronisation operations within the preemption bound. The wait
// must return, with the queue empty, and Terminate must return.
func VerifDrain() {
	d := zzvDriver()
	d.Run()
	ctx := d.Init()
	q := d.CreateCommandQueue(ctx)
	rounds := verif.Param("rounds", 2)
	other := make(chan bool, 1)
	two := verif.Param("apps", 1) == 2 && verif.Choice(2) == 1
	if two {
		// a second application thread with its own context and queue; the
		// first thread then enqueues one command per round and the
		// preemption bound is lowered
		n2 := 1 + verif.Choice(verif.Param("maxCmd2", 2))
		verif.PreemptBound(verif.Param("preempt2", 1))
		go func() {
			ctx2 := d.Init()
			q2 := d.CreateCommandQueue(ctx2)
			for i := 0; i < n2; i++ {
				d.Enqueue(q2, &NoopCommand{ID: "o"})
			}
			d.DrainCommandQueue(q2)
			verif.Assert(q2.NumCommand() == 0, "DrainCommandQueue returned while commands were pending (second thread)")
			other <- true
		}()
	}
	for r := 0; r < rounds; r++ {
		n := 1
		if !two {
			n = 1 + verif.Choice(verif.Param("maxCmd", 2))
		}
		for i := 0; i < n; i++ {
			d.Enqueue(q, &NoopCommand{ID: "c"})
		}
		d.DrainCommandQueue(q)
		verif.Assert(q.NumCommand() == 0, "DrainCommandQueue returned while commands were pending")
	}
	if two {
		<-other
	}
	d.Terminate()
}

type zzvIssued struct {
	req  *protocol.LaunchKernelReq
	q    int
	idx  int // index of the command in its queue's submission order
	done bool
}

// VerifQueueOrder: the driver's command processing (Tick) with the GPUs played
// by the harness. Two contexts, three queues (two on GPU 1, one on a unified
// device over GPUs 1+2), 1-3 commands each (no-op, kernel launch, unified
// multi-GPU launch); the harness chooses when the driver ticks and which
// outstanding request a GPU answers next. Per queue: commands start in
// submission order, exactly once and one at a time; a command leaves its queue
// exactly when its last response arrives; a response never disturbs another
// queue; every queue drains.
func VerifQueueOrder() {
	d := zzvDriver()
	d.gpuPort.SetConnection(simstub.NewConn("net"))
	comp := simstub.NewComp("GPUs")
	for g := 0; g < 2; g++ {
		d.RegisterGPU(sim.NewPort(comp, 4, 4, "GPU"+string(rune('1'+g))), DeviceProperties{CUCount: 2, DRAMSize: 1 << 32})
	}
	ctxA, ctxB := d.Init(), d.Init()
	uni := d.CreateUnifiedGPU(ctxB, []int{1, 2})
	d.SelectGPU(ctxB, uni)
	qs := []*CommandQueue{d.CreateCommandQueue(ctxA), d.CreateCommandQueue(ctxB), d.CreateCommandQueue(ctxA)}
	nq := verif.Param("queues", 3)
	qs = qs[:nq]
	type sub struct {
		cmd    Command
		launch bool
		nreq   int
	}
	subs := make([][]sub, nq)
	for qi, q := range qs {
		n := 1 + verif.Choice(verif.Param("maxCmd", 3))
		for i := 0; i < n; i++ {
			var c Command
			launch := verif.Choice(2) == 1
			nreq := 0
			switch {
			case launch && qi == 1:
				pk := func() *kernels.HsaKernelDispatchPacket {
					return &kernels.HsaKernelDispatchPacket{WorkgroupSizeX: 64, WorkgroupSizeY: 1, WorkgroupSizeZ: 1, GridSizeX: 64 * 4, GridSizeY: 1, GridSizeZ: 1}
				}
				c = &LaunchUnifiedMultiGPUKernelCommand{ID: "u", PacketArray: []*kernels.HsaKernelDispatchPacket{pk(), pk()}, DPacketArray: []Ptr{0x1000, 0x1000}}
				nreq = 2
			case launch:
				c = &LaunchKernelCommand{ID: "k", Packet: &kernels.HsaKernelDispatchPacket{}, DPacket: Ptr(0x1000)}
				nreq = 1
			default:
				c = &NoopCommand{ID: "n"}
			}
			subs[qi] = append(subs[qi], sub{c, launch, nreq})
			d.Enqueue(q, c)
		}
	}
	var issued []*zzvIssued
	observe := func() {
		for {
			m := d.gpuPort.RetrieveOutgoing()
			if m == nil {
				break
			}
			req, ok := m.(*protocol.LaunchKernelReq)
			verif.Assert(ok, "unexpected message to a GPU")
			if !ok {
				continue
			}
			qi, ci := -1, -1
			for a := range subs {
				for b, s := range subs[a] {
					for _, r := range s.cmd.GetReqs() {
						if r == sim.Msg(req) {
							qi, ci = a, b
						}
					}
				}
			}
			verif.Assert(qi >= 0, "a launch request that belongs to no submitted command (or to one that already completed)")
			if qi < 0 {
				continue
			}
			same := 0
			for _, o := range issued {
				if o.q == qi && o.idx == ci {
					same++ // (a command's requests leave one per tick, so a sibling may already be answered)
				}
				verif.Assert(!(o.q == qi && o.idx != ci && !o.done), "a queue started a command while its previous command was still running")
			}
			verif.Assert(same < subs[qi][ci].nreq, "a command was started twice")
			verif.Assert(qs[qi].NumCommand() == len(subs[qi])-ci, "a command started out of submission order")
			verif.Assert(req.PID == qs[qi].Context.pid, "launch request with the wrong PID")
			if qi != 1 {
				verif.Assert(req.Dst == d.GPUs[qs[qi].GPUID-1].AsRemote(), "launch request sent to the wrong GPU")
			}
			issued = append(issued, &zzvIssued{req: req, q: qi, idx: ci})
		}
	}
	K := verif.Param("steps", 10)
	for step := 0; step < K+60; step++ {
		var open []*zzvIssued
		for _, o := range issued {
			if !o.done {
				open = append(open, o)
			}
		}
		act := 0
		if step < K && len(open) > 0 {
			act = verif.Choice(2)
		} else if step >= K && len(open) > 0 && step%2 == 1 {
			act = 1
		}
		if act == 1 {
			o := open[0]
			if step < K {
				o = open[verif.Choice(len(open))]
			}
			before := make([]int, nq)
			for i, q := range qs {
				before[i] = q.NumCommand()
			}
			last := true
			for _, x := range open {
				if x != o && x.q == o.q && x.idx == o.idx {
					last = false // another request of the same command is still open
				}
			}
			same := 0
			for _, x := range issued {
				if x.q == o.q && x.idx == o.idx {
					same++
				}
			}
			if same < subs[o.q][o.idx].nreq {
				last = false // not all of its requests have even been sent yet
			}
			rsp := protocol.NewLaunchKernelRsp(o.req.Dst, o.req.Src, o.req.ID)
			verif.Assert(d.gpuPort.Deliver(rsp) == nil, "harness: response refused")
			d.Tick()
			o.done = true
			for i, q := range qs {
				n := q.NumCommand()
				if i == o.q {
					if last {
						verif.Assert(n <= before[i]-1, "a completed command was not removed from its queue")
					} else {
						verif.Assert(n == before[i], "a command left its queue before all of its requests were answered")
					}
				} else {
					gone := before[i] - n
					for k := 0; k < gone; k++ {
						verif.Assert(!subs[i][len(subs[i])-before[i]+k].launch, "a response for one queue removed a running command of another queue")
					}
				}
			}
			observe()
			continue
		}
		d.Tick()
		observe()
	}
	for i, q := range qs {
		verif.Assert(q.NumCommand() == 0, "a queue did not drain")
		verif.Assert(!q.IsRunning, "a drained queue is still marked running")
		n, want := 0, 0
		for _, o := range issued {
			if o.q == i {
				n++
			}
		}
		for _, s := range subs[i] {
			want += s.nreq
		}
		verif.Assert(n == want, "the number of launch requests differs from what the submitted commands need")
	}
}
