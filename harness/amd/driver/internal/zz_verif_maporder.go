package internal

import (
	"github.com/sarchlab/akita/v4/mem/vm"
	verif "github.com/sarchlab/mgpusim/v4/zzverif"
)

// VerifDeviceLookupMapOrder (C05): memoryAllocatorImpl.deviceIDByPAddr ranges
// over the device map; for a symbolic physical address inside the registered
// storage the device found must not depend on the iteration order.
func VerifDeviceLookupMapOrder() {
	a := NewMemoryAllocator(vm.NewPageTable(12), 12).(*memoryAllocatorImpl)
	sizes := []uint64{1 << 14, 1 << 13, 1 << 14, 1 << 12}
	n := 3 + verif.Choice(2)
	total := uint64(0)
	for i := 0; i < n; i++ {
		dev := &Device{ID: i, Type: DeviceTypeGPU, MemState: NewDeviceMemoryState(12)}
		if i == 0 {
			dev.Type = DeviceTypeCPU
		}
		dev.SetTotalMemSize(sizes[i])
		a.RegisterDevice(dev)
		total += sizes[i]
	}
	// a unified device on top (no storage of its own)
	a.RegisterDevice(&Device{ID: n, Type: DeviceTypeUnifiedGPU, UnifiedGPUIDs: []int{1, 2}, MemState: NewDeviceMemoryState(12)})
	p := verif.U64()
	verif.Assume(verif.And(p >= 1<<12, p < 1<<12+total)) // the allocator leaves the first page unused
	want := a.deviceIDByPAddr(p)
	verif.MapOrder(true)
	got := a.deviceIDByPAddr(p)
	verif.MapOrder(false)
	verif.Assert(got == want, "deviceIDByPAddr depends on map iteration order")
	verif.Observe(uint64(want))
}

// VerifAllocMapOrder (C05): a short allocation history (device memory on two
// GPUs, unified memory, a remap) gives the same virtual and physical addresses
// under every permuted map order as under the canonical one.
func VerifAllocMapOrder() {
	run := func(permute bool) []uint64 {
		pt := vm.NewPageTable(12)
		a := NewMemoryAllocator(pt, 12).(*memoryAllocatorImpl)
		for i := 0; i < 4; i++ {
			dev := &Device{ID: i, Type: DeviceTypeGPU, MemState: NewDeviceMemoryState(12)}
			if i == 0 {
				dev.Type = DeviceTypeCPU
			}
			dev.SetTotalMemSize(1 << 15)
			a.RegisterDevice(dev)
		}
		verif.MapOrder(permute)
		var tr []uint64
		note := func(v uint64) {
			tr = append(tr, v)
			if p, ok := pt.Find(1, v); ok {
				tr = append(tr, p.PAddr, p.DeviceID)
			}
		}
		note(a.Allocate(1, 4096, 2))
		note(a.AllocateUnified(1, 8192))
		note(a.Allocate(1, 100, 1))
		u := a.AllocateUnified(1, 4096)
		note(u)
		a.Remap(1, u, 4096, 3)
		note(u)
		tr = append(tr, uint64(a.GetDeviceIDByPAddr(tr[1])))
		verif.MapOrder(false)
		return tr
	}
	x, y := run(false), run(true)
	same := len(x) == len(y)
	if same {
		for i := range x {
			if x[i] != y[i] {
				same = false
			}
		}
	}
	verif.Assert(same, "memory allocator: addresses depend on map iteration order")
}
