package internal

// C10 harness: histories of allocate / free / remap / unified-allocate calls
// on the real allocator, devices and akita page table, with a monitor for
// aliasing, alignment, device ranges, page-table agreement and free-list
// accounting.

import (
	"github.com/sarchlab/akita/v4/mem/vm"
	verif "github.com/sarchlab/mgpusim/v4/zzverif"
)

const zzvLog2Page = 12
const zzvPage = uint64(1) << zzvLog2Page

type zzvBuf struct {
	pid       vm.PID
	vaddr     uint64
	npages    int
	live      bool
	onUnified bool // remapped onto the unified device: pages lie on one of its GPUs and record the unified device's id
}

type zzvAllocEnv struct {
	a       *memoryAllocatorImpl
	pt      vm.PageTable
	devs    []*Device // index = device id (0 unused, 1 CPU, 2.. GPUs, last unified)
	bufs    []*zzvBuf
	free    map[int]map[uint64]bool // model: free physical pages per device
	leaked  map[uint64]bool         // pages lost by the known remap / multi-page-free leaks
	pagesOf int                     // pages per device
	// classification for known findings
	multiPageFree, remapUsed, pidCollision bool
}

func zzvNewAllocEnv(pagesPerDev int, nGPU int) *zzvAllocEnv {
	e := &zzvAllocEnv{pagesOf: pagesPerDev, free: map[int]map[uint64]bool{}, leaked: map[uint64]bool{}}
	e.pt = vm.NewPageTable(zzvLog2Page)
	e.a = NewMemoryAllocator(e.pt, zzvLog2Page).(*memoryAllocatorImpl)
	e.devs = append(e.devs, nil)
	mk := func(id int, t DeviceType) *Device {
		d := &Device{ID: id, Type: t, MemState: NewDeviceMemoryState(zzvLog2Page)}
		d.SetTotalMemSize(uint64(pagesPerDev) * zzvPage)
		return d
	}
	cpu := mk(1, DeviceTypeCPU)
	e.a.RegisterDevice(cpu)
	e.devs = append(e.devs, cpu)
	var gpus []*Device
	for i := 0; i < nGPU; i++ {
		g := mk(2+i, DeviceTypeGPU)
		e.a.RegisterDevice(g)
		e.devs = append(e.devs, g)
		gpus = append(gpus, g)
	}
	u := &Device{ID: 2 + nGPU, Type: DeviceTypeUnifiedGPU, MemState: NewDeviceMemoryState(zzvLog2Page)}
	for _, g := range gpus {
		u.UnifiedGPUIDs = append(u.UnifiedGPUIDs, g.ID)
		u.ActualGPUs = append(u.ActualGPUs, g)
	}
	e.a.RegisterDevice(u)
	e.devs = append(e.devs, u)
	for id := 1; id <= 1+nGPU; id++ {
		e.free[id] = map[uint64]bool{}
		base := e.devs[id].MemState.getInitialAddress()
		for p := 0; p < pagesPerDev; p++ {
			e.free[id][base+uint64(p)*zzvPage] = true
		}
	}
	return e
}

func (e *zzvAllocEnv) devOfPAddr(p uint64) int {
	for id := 1; id < len(e.devs)-1; id++ {
		base := e.devs[id].MemState.getInitialAddress()
		if p >= base && p < base+uint64(e.pagesOf)*zzvPage {
			return id
		}
	}
	return -1
}

func (e *zzvAllocEnv) tag() string {
	t := ""
	if e.multiPageFree {
		t += " [after Free of a multi-page buffer]"
	}
	if e.remapUsed {
		t += " [after a Remap]"
	}
	if e.pidCollision {
		t += " [two processes use the same virtual address]"
	}
	if t == "" {
		t = " [single-page frees, no remap, distinct virtual addresses]"
	}
	return t
}

func (e *zzvAllocEnv) freeCount(dev int) int { return len(e.free[dev]) }

// allocate models and performs Allocate; returns false when the device is too full (skipped).
func (e *zzvAllocEnv) allocate(pid vm.PID, size uint64, dev int, npages int) {
	if e.freeCount(dev) < npages {
		return // would exhaust the device: outside "valid sequences within capacity"
	}
	ptr := e.a.Allocate(pid, size, dev)
	e.record(pid, ptr, npages, []int{dev})
}

func (e *zzvAllocEnv) record(pid vm.PID, ptr uint64, npages int, devs []int) {
	verif.Assert(ptr%zzvPage == 0, "returned pointer is not page-aligned"+e.tag())
	for _, b := range e.bufs {
		if b.live && b.pid == pid {
			overlap := ptr < b.vaddr+uint64(b.npages)*zzvPage && b.vaddr < ptr+uint64(npages)*zzvPage
			verif.Assert(!overlap, "a new buffer overlaps a live buffer of the same process in virtual space"+e.tag())
		}
		if b.live && b.pid != pid && ptr < b.vaddr+uint64(b.npages)*zzvPage && b.vaddr < ptr+uint64(npages)*zzvPage {
			e.pidCollision = true
		}
	}
	e.bufs = append(e.bufs, &zzvBuf{pid: pid, vaddr: ptr, npages: npages, live: true})
	// the physical pages just handed out leave the model's free lists
	for i := 0; i < npages; i++ {
		pg, ok := e.pt.Find(pid, ptr+uint64(i)*zzvPage)
		verif.Assert(ok, "a page of a new buffer is not in the page table"+e.tag())
		if !ok {
			continue
		}
		d := e.devOfPAddr(pg.PAddr)
		verif.Assert(d > 0, "a page was mapped to a physical address outside every device"+e.tag())
		if d <= 0 {
			continue
		}
		okDev := false
		for _, x := range devs {
			if x == d {
				okDev = true
			}
		}
		verif.Assert(okDev, "a page was allocated on a device other than the requested one(s)"+e.tag())
		verif.Assert(e.free[d][pg.PAddr], "a physical page was handed out although it was not free (handed out twice)"+e.tag())
		delete(e.free[d], pg.PAddr)
	}
}

func (e *zzvAllocEnv) freeBuf(b *zzvBuf) {
	// physical pages before the free
	var pas []uint64
	for i := 0; i < b.npages; i++ {
		if pg, ok := e.pt.Find(b.pid, b.vaddr+uint64(i)*zzvPage); ok {
			pas = append(pas, pg.PAddr)
		}
	}
	e.a.Free(b.vaddr)
	b.live = false
	if b.npages > 1 {
		e.multiPageFree = true
	}
	for i := 0; i < b.npages; i++ {
		_, still := e.pt.Find(b.pid, b.vaddr+uint64(i)*zzvPage)
		verif.Assert(!still, "a page of a freed buffer is still mapped"+e.tag())
	}
	for _, pa := range pas {
		d := e.devOfPAddr(pa)
		if d > 0 {
			e.free[d][pa] = true
		}
	}
}

func (e *zzvAllocEnv) remap(b *zzvBuf, dev int) {
	uni := dev == len(e.devs)-1
	if uni {
		// the unified device takes the pages from one of its GPUs (round robin):
		// within capacity only if every GPU could serve the request
		for g := 2; g < len(e.devs)-1; g++ {
			if e.freeCount(g) < b.npages {
				return
			}
		}
	} else if e.freeCount(dev) < b.npages {
		return
	}
	var old []uint64
	for i := 0; i < b.npages; i++ {
		if pg, ok := e.pt.Find(b.pid, b.vaddr+uint64(i)*zzvPage); ok {
			old = append(old, pg.PAddr)
		}
	}
	e.a.Remap(b.pid, b.vaddr, uint64(b.npages)*zzvPage, dev)
	e.remapUsed = true
	b.onUnified = uni
	for i := 0; i < b.npages; i++ {
		pg, ok := e.pt.Find(b.pid, b.vaddr+uint64(i)*zzvPage)
		verif.Assert(ok, "a remapped page disappeared from the page table"+e.tag())
		if !ok {
			continue
		}
		d := e.devOfPAddr(pg.PAddr)
		if uni {
			verif.Assert(d >= 2 && d < len(e.devs)-1, "a page remapped onto the unified device does not lie in the memory of one of its GPUs"+e.tag())
		} else {
			verif.Assert(d == dev, "a remapped page does not lie in the memory of the target device"+e.tag())
		}
		verif.Assert(int(pg.DeviceID) == dev, "a remapped page records the wrong device"+e.tag())
		if d > 0 {
			verif.Assert(e.free[d][pg.PAddr], "remap handed out a physical page that was not free"+e.tag())
			delete(e.free[d], pg.PAddr)
		}
	}
	for _, pa := range old {
		e.leaked[pa] = true // (known) the old physical pages are neither mapped nor returned
	}
}

// invariants after every step
func (e *zzvAllocEnv) invariants() {
	seen := map[uint64]bool{}
	for _, b := range e.bufs {
		if !b.live {
			continue
		}
		for i := 0; i < b.npages; i++ {
			v := b.vaddr + uint64(i)*zzvPage
			pg, ok := e.pt.Find(b.pid, v)
			verif.Assert(ok && pg.Valid, "a live page is not mapped in the page table"+e.tag())
			if !ok {
				continue
			}
			verif.Assert(pg.PAddr%zzvPage == 0, "a physical page is not page-aligned"+e.tag())
			verif.Assert(!seen[pg.PAddr], "two live virtual pages map to the same physical page"+e.tag())
			seen[pg.PAddr] = true
			d := e.devOfPAddr(pg.PAddr)
			recOK := int(pg.DeviceID) == d || (b.onUnified && int(pg.DeviceID) == len(e.devs)-1 && d >= 2)
			verif.Assert(d > 0 && recOK, "a live page lies outside the memory of the device recorded for it"+e.tag())
			if d > 0 {
				verif.Assert(!e.free[d][pg.PAddr], "a physical page is both mapped and free"+e.tag())
			}
			am, has := e.a.vAddrToPageMapping[v]
			verif.Assert(has && am.PAddr == pg.PAddr && am.PID == pg.PID, "the allocator's page record disagrees with the page table"+e.tag())
		}
	}
	// the implementation's free lists hold exactly the model's free pages, each once
	for id := 1; id < len(e.devs)-1; id++ {
		st := e.devs[id].MemState.(*deviceMemoryStateImpl)
		cnt := map[uint64]int{}
		for _, p := range st.availablePAddrs {
			cnt[p]++
			verif.Assert(cnt[p] == 1, "a physical page is on a free list twice"+e.tag())
			verif.Assert(e.free[id][p], "the free list holds a page that is mapped or belongs to another device"+e.tag())
		}
		for p := range e.free[id] {
			verif.Assert(cnt[p] == 1, "a physical page that should be reusable is not on its device's free list"+e.tag())
		}
	}
}

func (e *zzvAllocEnv) step(withRemap, withUnified bool, nGPU int) {
	var live []*zzvBuf
	for _, b := range e.bufs {
		if b.live {
			live = append(live, b)
		}
	}
	nops := 1
	if len(live) > 0 {
		nops++
		if withRemap {
			nops++
		}
	}
	if withUnified {
		nops++
	}
	op := verif.Choice(nops)
	if len(live) == 0 && op >= 1 {
		op += 2
		if !withRemap {
			op--
		}
	} else if !withRemap && op >= 2 {
		op++
	}
	pickSize := func() (uint64, int) {
		size := verif.U64()
		verif.Assume(verif.And(size >= 1, size <= 2*zzvPage))
		n := 1
		if size > zzvPage { // solver-decided page count
			n = 2
		}
		return size, n
	}
	switch op {
	case 0: // Allocate
		pid := vm.PID(1 + verif.Choice(2))
		size, n := pickSize()
		e.allocate(pid, size, 2+verif.Choice(nGPU), n)
	case 1: // Free
		e.freeBuf(live[verif.Choice(len(live))])
	case 2: // Remap
		nt := nGPU
		if withUnified {
			nt++ // the unified device is a valid Remap / Distribute target as well
		}
		e.remap(live[verif.Choice(len(live))], 2+verif.Choice(nt))
	case 3: // AllocateUnified (implemented as an allocation on device 1)
		pid := vm.PID(1 + verif.Choice(2))
		size, n := pickSize()
		if e.freeCount(1) >= n {
			ptr := e.a.AllocateUnified(pid, size)
			e.record(pid, ptr, n, []int{1})
		}
	}
	e.invariants()
}

// VerifAllocHistory: all histories of K API calls from the empty system
// (CPU + 2 GPUs + unified device, 4 pages each, two processes).
func VerifAllocHistory() {
	e := zzvNewAllocEnv(4, 2)
	K := verif.Param("allocSteps", 4)
	for i := 0; i < K; i++ {
		e.step(verif.Param("remap", 1) == 1, verif.Param("unified", 1) == 1, 2)
	}
}

// VerifAllocFragmented: first a deterministic prefix fragments the free lists
// (three single-page buffers and one two-page buffer per GPU, the first
// single-page buffer freed again), then K further calls are explored.
func VerifAllocFragmented() {
	e := zzvNewAllocEnv(6, 2)
	for g := 0; g < 2; g++ {
		for i := 0; i < 3; i++ {
			e.allocate(1, 100, 2+g, 1)
		}
		e.allocate(1, zzvPage+1, 2+g, 2)
	}
	e.freeBuf(e.bufs[0])
	e.freeBuf(e.bufs[4])
	e.invariants()
	K := verif.Param("fragSteps", 2)
	for i := 0; i < K; i++ {
		e.step(true, false, 2)
	}
}

// VerifAllocExhaust: one process, single-page buffers, a tiny device: every
// allocate/free history of K calls; exercises free-list wrap-around and reuse.
func VerifAllocExhaust() {
	e := zzvNewAllocEnv(2, 1)
	K := verif.Param("exhaustSteps", 7)
	for i := 0; i < K; i++ {
		var live []*zzvBuf
		for _, b := range e.bufs {
			if b.live {
				live = append(live, b)
			}
		}
		nops := 2
		if len(live) > 0 {
			nops = 3
		}
		switch verif.Choice(nops) {
		case 0:
			e.allocate(1, 64, 2, 1)
		case 1:
			if e.freeCount(1) >= 1 {
				ptr := e.a.AllocateUnified(1, 64)
				e.record(1, ptr, 1, []int{1})
			}
		case 2:
			e.freeBuf(live[verif.Choice(len(live))])
		}
		e.invariants()
	}
}
