package driver

// C05 harness (map-order slice): the page-migration path of the driver ranges
// over Go maps; the order of the requests it emits and the physical pages it
// allocates must not depend on the iteration order.

import (
	"github.com/sarchlab/akita/v4/mem/vm"
	"github.com/sarchlab/akita/v4/sim"
	"github.com/sarchlab/mgpusim/v4/amd/protocol"
	verif "github.com/sarchlab/mgpusim/v4/zzverif"
	"github.com/sarchlab/mgpusim/v4/zzverif/simstub"
)

// one page-migration request handled up to the messages to the command
// processors and the reply to the MMU; returns the observable trace
func zzvMigrationTrace(nReq int, permute bool) []uint64 {
	d := zzvDriver()
	d.gpuPort.SetConnection(simstub.NewConn("net"))
	comp := simstub.NewComp("GPUs")
	for g := 0; g < 4; g++ {
		d.RegisterGPU(sim.NewPort(comp, 4, 4, "GPU"+string(rune('1'+g))), DeviceProperties{CUCount: 4, DRAMSize: 4 << 30})
		d.RemotePMCPorts = append(d.RemotePMCPorts, sim.NewPort(comp, 4, 4, "PMC"+string(rune('1'+g))))
	}
	ctx := d.Init()
	d.SelectGPU(ctx, 1)
	// one page per requesting GPU, all currently on GPU 1
	info := &vm.PageMigrationInfo{GPUReqToVAddrMap: map[uint64][]uint64{}}
	for i := 0; i < nReq; i++ {
		p := d.AllocateMemory(ctx, 1<<30)
		info.GPUReqToVAddrMap[uint64(2+i)] = []uint64{uint64(p)}
	}
	d.currentPageMigrationReq = &vm.PageMigrationReqToDriver{PID: ctx.pid, PageSize: 1 << 30, CurrPageHostGPU: 1, MigrationInfo: info}
	d.currentPageMigrationReq.Src = "MMU"
	d.numShootDownACK = 1
	verif.MapOrder(permute)
	d.processShootdownCompleteRsp(&protocol.ShootDownCompleteRsp{})
	d.preparePageMigrationRspToMMU()
	verif.MapOrder(false)
	var tr []uint64
	for _, r := range d.migrationReqToSendToCP {
		dst := uint64(0)
		for g, p := range d.GPUs {
			if p.AsRemote() == r.Dst {
				dst = uint64(g + 1)
			}
		}
		tr = append(tr, dst, r.ToReadFromPhysicalAddress, r.ToWriteToPhysicalAddress, r.PageSize)
	}
	tr = append(tr, 0xFFFF)
	if d.toSendToMMU != nil {
		tr = append(tr, d.toSendToMMU.VAddr...)
	}
	for _, vs := range info.GPUReqToVAddrMap {
		_ = vs
	}
	for i := 0; i < nReq; i++ {
		v := info.GPUReqToVAddrMap[uint64(2+i)][0]
		page, _ := d.pageTable.Find(ctx.pid, v)
		tr = append(tr, page.PAddr, page.DeviceID)
	}
	return tr
}

// VerifMigrationMapOrder: 2 or 3 GPUs request pages hosted by GPU 1; the
// trace (migration requests in order with their addresses, the reply to the
// MMU, the resulting page table entries) under every permutation of the map
// iteration orders equals the trace under the canonical order.
func VerifMigrationMapOrder() {
	n := 2 + verif.Choice(2)
	a := zzvMigrationTrace(n, false)
	b := zzvMigrationTrace(n, true)
	same := len(a) == len(b)
	if same {
		for i := range a {
			if a[i] != b[i] {
				same = false
			}
		}
	}
	verif.Assert(same, "page migration: emitted requests / allocated pages depend on map iteration order")
}
