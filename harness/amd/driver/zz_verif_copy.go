package driver

// C11 harnesses (driver side): direct-storage copies and the flush decision.

import (
	"github.com/sarchlab/akita/v4/mem/mem"
	"github.com/sarchlab/akita/v4/mem/vm"
	verif "github.com/sarchlab/mgpusim/v4/zzverif"
)

// VerifMemRangeOverlap: the flush decision's interval test equals the
// mathematical overlap of two non-empty half-open ranges, and needFlushing is
// true whenever a dirty buffer intersects the copied range.
func VerifMemRangeOverlap() {
	s1, e1, s2, e2 := verif.U64(), verif.U64(), verif.U64(), verif.U64()
	verif.Assume(verif.And(s1 < e1, s2 < e2))
	want := verif.And(s1 < e2, s2 < e1)
	verif.Assert(memRangeOverlap(s1, e1, s2, e2) == want, "memRangeOverlap differs from the overlap of two non-empty ranges (e.g. one range strictly inside the other)")
	// needFlushing over a context with one dirty buffer
	m := &defaultMemoryCopyMiddleware{}
	size := e1 - s1
	ctx := &Context{buffers: []*buffer{{vAddr: Ptr(s1), size: size, l2Dirty: true}}}
	verif.Assert(m.needFlushing(ctx, Ptr(s2), e2-s2) == want, "needFlushing misses a dirty buffer that intersects the copied range")
	verif.Observe(uint64(0))
}

const zzvCPage = 64

// VerifDirectCopy: H2D then D2H through the direct-storage middleware for a
// buffer of three virtual pages placed on non-contiguous physical pages
// (several placements), every (offset,len) from a boundary-rich list, symbolic
// payload and symbolic prior memory: the written range holds the payload,
// every other byte of the three pages and of two bystander pages is unchanged,
// and the read-back equals the payload; each command is dequeued exactly once.
func VerifDirectCopy() {
	pt := vm.NewPageTable(6)
	placements := [][3]uint64{{0x1000, 0x1040, 0x1080}, {0x1080, 0x1000, 0x2000}, {0x3000, 0x1040, 0x1000}}
	pl := placements[verif.Choice(len(placements))]
	pid := vm.PID(1)
	vbase := uint64(0x4000)
	for i := 0; i < 3; i++ {
		pt.Insert(vm.Page{PID: pid, VAddr: vbase + uint64(i)*zzvCPage, PAddr: pl[i], PageSize: zzvCPage, Valid: true})
	}
	storage := mem.NewStorageWithUnitSize(1<<20, 64)
	watch := []uint64{0x1000, 0x1040, 0x1080, 0x10c0, 0x2000, 0x2040, 0x3000, 0x3040, 0xfc0}
	prior := map[uint64][]byte{}
	for _, a := range watch {
		b := verif.Bytes(zzvCPage)
		prior[a] = b
		storage.Write(a, b)
	}
	d := &Driver{pageTable: pt, globalStorage: storage}
	m := &globalStorageMemoryCopyMiddleware{driver: d}
	ctx := &Context{pid: pid}
	q := &CommandQueue{Context: ctx, PID: pid}

	offs := []uint64{0, 1, 31, 63, 64, 65, 100, 127, 128, 129, 191}
	lens := []uint64{1, 2, 33, 63, 64, 65, 128, 129}
	off := offs[verif.Choice(len(offs))]
	n := lens[verif.Choice(len(lens))]
	if off+n > 3*zzvCPage {
		return
	}
	payload := verif.Bytes(int(n))
	h2d := &MemCopyH2DCommand{ID: "h2d", Dst: Ptr(vbase + off), Src: payload}
	q.commands = []Command{h2d}
	q.IsRunning = true
	verif.Assert(m.ProcessCommand(h2d, q), "H2D command not processed")
	verif.Assert(len(q.commands) == 0 && !q.IsRunning, "H2D command was not dequeued exactly once")

	// expected memory
	for _, a := range watch {
		got, _ := storage.Read(a, zzvCPage)
		for i := uint64(0); i < zzvCPage; i++ {
			want := prior[a][i]
			for p := 0; p < 3; p++ {
				if pl[p] == a { // this physical page backs virtual page p
					v := uint64(p)*zzvCPage + i
					if v >= off && v < off+n {
						want = payload[v-off]
					}
				}
			}
			verif.Assert(got[i] == want, "device memory after H2D differs: written range must hold the payload, everything else must be unchanged")
		}
	}

	back := make([]byte, n)
	d2h := &MemCopyD2HCommand{ID: "d2h", Src: Ptr(vbase + off), Dst: back}
	q.commands = []Command{d2h}
	q.IsRunning = true
	verif.Assert(m.ProcessCommand(d2h, q), "D2H command not processed")
	verif.Assert(len(q.commands) == 0 && !q.IsRunning, "D2H command was not dequeued exactly once")
	same := true
	for i := range back {
		same = verif.And(same, back[i] == payload[i])
	}
	verif.Assert(same, "D2H(H2D(x)) differs from x")
	verif.Observe(uint64(back[0]))
}
