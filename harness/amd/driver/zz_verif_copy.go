package driver

// C11 harnesses (driver side): direct-storage copies and the flush decision.

import (
	"github.com/sarchlab/akita/v4/mem/mem"
	"github.com/sarchlab/akita/v4/mem/vm"
	"github.com/sarchlab/akita/v4/sim"
	"github.com/sarchlab/mgpusim/v4/amd/driver/internal"
	"github.com/sarchlab/mgpusim/v4/amd/kernels"
	"github.com/sarchlab/mgpusim/v4/amd/protocol"
	verif "github.com/sarchlab/mgpusim/v4/zzverif"
	"github.com/sarchlab/mgpusim/v4/zzverif/simstub"
)

// VerifMemRangeOverlap: the flush decision's interval test equals the
// mathematical overlap of two non-empty half-open ranges, and needFlushing is
// true whenever a dirty buffer intersects the copied range.
func VerifMemRangeOverlap() {
	s1, e1, s2, e2 := verif.U64(), verif.U64(), verif.U64(), verif.U64()
	verif.Assume(verif.And(s1 < e1, s2 < e2))
	want := verif.And(s1 < e2, s2 < e1)
	verif.Assert(memRangeOverlap(s1, e1, s2, e2) == want, "memRangeOverlap differs from the overlap of two non-empty ranges (e.g. one range strictly inside the other)")
	// needFlushing over a context with one dirty buffer
	m := &defaultMemoryCopyMiddleware{}
	size := e1 - s1
	ctx := &Context{buffers: []*buffer{{vAddr: Ptr(s1), size: size, l2Dirty: true}}}
	verif.Assert(m.needFlushing(ctx, Ptr(s2), e2-s2) == want, "needFlushing misses a dirty buffer that intersects the copied range")
	verif.Observe(uint64(0))
}

const zzvCPage = 64

// VerifDirectCopy: H2D then D2H through the direct-storage middleware for a
// buffer of three virtual pages placed on non-contiguous physical pages
// (several placements), every (offset,len) from a boundary-rich list, symbolic
// payload and symbolic prior memory: the written range holds the payload,
// every other byte of the three pages and of two bystander pages is unchanged,
// and the read-back equals the payload; each command is dequeued exactly once.
func VerifDirectCopy() {
	pt := vm.NewPageTable(6)
	placements := [][3]uint64{{0x1000, 0x1040, 0x1080}, {0x1080, 0x1000, 0x2000}, {0x3000, 0x1040, 0x1000}}
	pl := placements[verif.Choice(len(placements))]
	pid := vm.PID(1)
	vbase := uint64(0x4000)
	for i := 0; i < 3; i++ {
		pt.Insert(vm.Page{PID: pid, VAddr: vbase + uint64(i)*zzvCPage, PAddr: pl[i], PageSize: zzvCPage, Valid: true})
	}
	storage := mem.NewStorageWithUnitSize(1<<20, 64)
	watch := []uint64{0x1000, 0x1040, 0x1080, 0x10c0, 0x2000, 0x2040, 0x3000, 0x3040, 0xfc0}
	prior := map[uint64][]byte{}
	for _, a := range watch {
		b := verif.Bytes(zzvCPage)
		prior[a] = b
		storage.Write(a, b)
	}
	d := &Driver{pageTable: pt, globalStorage: storage}
	m := &globalStorageMemoryCopyMiddleware{driver: d}
	ctx := &Context{pid: pid}
	q := &CommandQueue{Context: ctx, PID: pid}

	offs := []uint64{0, 1, 31, 63, 64, 65, 100, 127, 128, 129, 191}
	lens := []uint64{1, 2, 33, 63, 64, 65, 128, 129}
	off := offs[verif.Choice(len(offs))]
	n := lens[verif.Choice(len(lens))]
	if off+n > 3*zzvCPage {
		return
	}
	payload := verif.Bytes(int(n))
	h2d := &MemCopyH2DCommand{ID: "h2d", Dst: Ptr(vbase + off), Src: payload}
	q.commands = []Command{h2d}
	q.IsRunning = true
	verif.Assert(m.ProcessCommand(h2d, q), "H2D command not processed")
	verif.Assert(len(q.commands) == 0 && !q.IsRunning, "H2D command was not dequeued exactly once")

	// expected memory
	for _, a := range watch {
		got, _ := storage.Read(a, zzvCPage)
		for i := uint64(0); i < zzvCPage; i++ {
			want := prior[a][i]
			for p := 0; p < 3; p++ {
				if pl[p] == a { // this physical page backs virtual page p
					v := uint64(p)*zzvCPage + i
					if v >= off && v < off+n {
						want = payload[v-off]
					}
				}
			}
			verif.Assert(got[i] == want, "device memory after H2D differs: written range must hold the payload, everything else must be unchanged")
		}
	}

	back := make([]byte, n)
	d2h := &MemCopyD2HCommand{ID: "d2h", Src: Ptr(vbase + off), Dst: back}
	q.commands = []Command{d2h}
	q.IsRunning = true
	verif.Assert(m.ProcessCommand(d2h, q), "D2H command not processed")
	verif.Assert(len(q.commands) == 0 && !q.IsRunning, "D2H command was not dequeued exactly once")
	same := true
	for i := range back {
		same = verif.And(same, back[i] == payload[i])
	}
	verif.Assert(same, "D2H(H2D(x)) differs from x")
	verif.Observe(uint64(back[0]))
}

// VerifWGSplit (C18/C08): the unified multi-GPU launch splits the grid so that
// every work-group is accepted by exactly one GPU's filter, the real grid
// builder announces for each GPU exactly the size of its range and produces
// exactly those work-groups, and the ranges cover the whole grid.
func VerifWGSplit() {
	grids := [][3]int{{4, 4, 1}, {2, 8, 1}, {8, 2, 1}, {2, 6, 3}, {5, 1, 1}, {3, 3, 2}, {1, 7, 2}}
	g := grids[verif.Choice(verif.Param("splitGrids", len(grids)))]
	cuSets := [][]int{{1, 1}, {64, 64}, {2, 3}, {1, 1, 1, 1}, {4, 2, 1, 1}, {3}}
	cus := cuSets[verif.Choice(len(cuSets))]
	wgs := [3]uint16{2, 2, 1}
	d := &Driver{}
	d.TickingComponent = sim.NewTickingComponent("Driver", simstub.NewEngine(), 1*sim.GHz, d)
	d.gpuPort = sim.NewPort(d, 4, 4, "Driver.ToGPUs")
	d.devices = append(d.devices, &internal.Device{ID: 0, Type: internal.DeviceTypeCPU})
	unified := &internal.Device{ID: len(cus) + 1, Type: internal.DeviceTypeUnifiedGPU}
	for i, n := range cus {
		d.devices = append(d.devices, &internal.Device{ID: i + 1, Type: internal.DeviceTypeGPU, Properties: internal.DeviceProperties{CUCount: n}})
		d.GPUs = append(d.GPUs, sim.NewPort(nil, 4, 4, "GPU"))
		unified.UnifiedGPUIDs = append(unified.UnifiedGPUIDs, i+1)
	}
	d.devices = append(d.devices, unified)
	ctx := &Context{pid: 1}
	q := &CommandQueue{Context: ctx, GPUID: unified.ID}
	cmd := &LaunchUnifiedMultiGPUKernelCommand{ID: "k"}
	for range cus {
		cmd.PacketArray = append(cmd.PacketArray, &kernels.HsaKernelDispatchPacket{
			WorkgroupSizeX: wgs[0], WorkgroupSizeY: wgs[1], WorkgroupSizeZ: wgs[2],
			GridSizeX: uint32(g[0])*uint32(wgs[0]) - 1, GridSizeY: uint32(g[1]) * uint32(wgs[1]), GridSizeZ: uint32(g[2]) * uint32(wgs[2])})
		cmd.DPacketArray = append(cmd.DPacketArray, Ptr(0x1000))
	}
	q.commands = []Command{cmd}
	verif.Assert(d.processUnifiedMultiGPULaunchKernelCommand(cmd, q), "launch command not processed")
	total := g[0] * g[1] * g[2]
	accepted := make([]int, total)
	sum := 0
	for _, m := range d.requestsToSend {
		req, ok := m.(*protocol.LaunchKernelReq)
		verif.Assert(ok && req.WGFilter != nil, "a launch request without a work-group filter")
		if !ok || req.WGFilter == nil {
			continue
		}
		mine := 0
		for z := 0; z < g[2]; z++ {
			for y := 0; y < g[1]; y++ {
				for x := 0; x < g[0]; x++ {
					if req.WGFilter(req.Packet, &kernels.WorkGroup{IDX: x, IDY: y, IDZ: z}) {
						accepted[x+y*g[0]+z*g[0]*g[1]]++
						mine++
					}
				}
			}
		}
		gb := kernels.NewGridBuilder()
		gb.SetKernel(kernels.KernelLaunchInfo{Packet: req.Packet, WGFilter: req.WGFilter})
		verif.Assert(gb.NumWG() == mine, "the number of work-groups announced to a GPU differs from the number its filter accepts")
		produced := 0
		for gb.NextWG() != nil {
			produced++
		}
		verif.Assert(produced == mine, "the number of work-groups a GPU produces differs from the number its filter accepts")
		sum += mine
	}
	for _, n := range accepted {
		verif.Assert(n == 1, "a work-group is executed by no GPU or by more than one GPU")
	}
	verif.Assert(sum == total, "the per-GPU shares do not add up to the grid")
}

// zzvDevMap stands in for the allocator: only the owner lookup is used by the
// DMA-path middleware. GPU 1 owns [0x1000,0x2000), GPU 2 owns [0x2000,0x4000).
type zzvDevMap struct{ internal.MemoryAllocator }

func (zzvDevMap) GetDeviceIDByPAddr(p uint64) int {
	if p < 0x2000 {
		return 1
	}
	return 2
}

// VerifDMAPathCopy (C11): the driver's DMA-path middleware
// (defaultMemoryCopyMiddleware) splits an H2D / D2H copy over 3 virtual pages
// into requests to the GPUs. The GPUs' DMA engines are played by the harness
// on a flat physical memory with symbolic contents: the requests of an H2D
// must change exactly the bytes backing the written range to the payload, the
// requests of a D2H must assemble exactly the bytes backing the read range,
// each request must go to the GPU that owns its physical address.
func VerifDMAPathCopy() {
	pt := vm.NewPageTable(6)
	placements := [][3]uint64{
		{0x1000, 0x1040, 0x1080}, // physically contiguous
		{0x1000, 0x1080, 0x1040}, // same GPU, not adjacent / reversed
		{0x1040, 0x2000, 0x1000}, // alternating GPUs
		{0x2040, 0x1000, 0x10c0}, // same GPU with a gap
	}
	pl := placements[verif.Choice(len(placements))]
	pid := vm.PID(1)
	vbase := uint64(0x4000)
	for i := 0; i < 3; i++ {
		pt.Insert(vm.Page{PID: pid, VAddr: vbase + uint64(i)*zzvCPage, PAddr: pl[i], PageSize: zzvCPage, Valid: true})
	}
	comp := simstub.NewComp("GPUs")
	d := &Driver{pageTable: pt, memAllocator: zzvDevMap{}}
	d.TickingComponent = sim.NewTickingComponent("Driver", simstub.NewEngine(), 1*sim.GHz, d)
	d.gpuPort = sim.NewPort(d, 4, 4, "Driver.ToGPUs")
	d.GPUs = []sim.Port{sim.NewPort(comp, 4, 4, "GPU1"), sim.NewPort(comp, 4, 4, "GPU2")}
	m := &defaultMemoryCopyMiddleware{driver: d, cyclesPerH2D: 1, cyclesPerD2H: 1}
	q := &CommandQueue{Context: &Context{pid: pid}, PID: pid}

	// flat physical memory; a byte never seen before has an arbitrary value
	phys := map[uint64]byte{}
	rd := func(a uint64) byte {
		if _, ok := phys[a]; !ok {
			phys[a] = verif.Bytes(1)[0]
		}
		return phys[a]
	}
	vToP := func(v uint64) uint64 { return pl[v/zzvCPage] + v%zzvCPage }

	offs := []uint64{0, 1, 31, 63, 64, 65, 100, 127, 128, 129, 191}
	lens := []uint64{1, 2, 33, 63, 64, 65, 128, 129, 192}
	off := offs[verif.Choice(len(offs))]
	n := lens[verif.Choice(len(lens))]
	if off+n > 3*zzvCPage {
		return
	}
	route := func(dst sim.RemotePort, pa uint64) {
		verif.Assert(dst == d.GPUs[zzvDevMap{}.GetDeviceIDByPAddr(pa)-1].AsRemote(), "copy request sent to a GPU that does not own the physical address")
	}

	if verif.Choice(2) == 0 { // host to device
		before := map[uint64]byte{}
		for v := uint64(0); v < 3*zzvCPage; v++ {
			before[vToP(v)] = rd(vToP(v))
		}
		payload := verif.Bytes(int(n))
		h2d := &MemCopyH2DCommand{ID: "h2d", Dst: Ptr(vbase + off), Src: payload}
		q.commands = []Command{h2d}
		verif.Assert(m.ProcessCommand(h2d, q), "H2D command not processed")
		verif.Assert(len(m.awaitingReqs) == len(h2d.Reqs), "not every H2D request is queued for sending")
		for _, r := range h2d.Reqs {
			w, ok := r.(*protocol.MemCopyH2DReq)
			verif.Assert(ok, "H2D command produced something that is not an H2D request")
			if !ok {
				continue
			}
			route(w.Dst, w.DstAddress)
			for i := range w.SrcBuffer {
				phys[w.DstAddress+uint64(i)] = w.SrcBuffer[i]
			}
		}
		for v := uint64(0); v < 3*zzvCPage; v++ {
			want := before[vToP(v)]
			if v >= off && v < off+n {
				want = payload[v-off]
			}
			verif.Assert(rd(vToP(v)) == want, "device memory after the H2D requests differs: written range must hold the payload, the rest of the buffer must be unchanged")
		}
		for a, b := range phys {
			if _, ours := before[a]; !ours {
				_ = b
				verif.Fail("an H2D request writes physical memory that does not belong to the buffer")
			}
		}
		verif.Observe(uint64(len(h2d.Reqs)))
		return
	}
	back := make([]byte, n)
	d2h := &MemCopyD2HCommand{ID: "d2h", Src: Ptr(vbase + off), Dst: back}
	q.commands = []Command{d2h}
	verif.Assert(m.ProcessCommand(d2h, q), "D2H command not processed")
	verif.Assert(len(m.awaitingReqs) == len(d2h.Reqs), "not every D2H request is queued for sending")
	for _, r := range d2h.Reqs {
		g, ok := r.(*protocol.MemCopyD2HReq)
		verif.Assert(ok, "D2H command produced something that is not a D2H request")
		if !ok {
			continue
		}
		route(g.Dst, g.SrcAddress)
		for i := range g.DstBuffer {
			g.DstBuffer[i] = rd(g.SrcAddress + uint64(i)) // what the GPU's DMA engine does
		}
	}
	verif.Assert(uint64(len(d2h.RawData)) == n, "D2H staging buffer has the wrong length")
	same := true
	for i := uint64(0); i < n && i < uint64(len(d2h.RawData)); i++ {
		same = verif.And(same, d2h.RawData[i] == rd(vToP(off+i)))
	}
	verif.Assert(same, "the bytes assembled by the D2H requests differ from the device memory backing the requested range")
	verif.Observe(uint64(len(d2h.Reqs)))
}
