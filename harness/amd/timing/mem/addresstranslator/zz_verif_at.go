package addresstranslator

// C16 harness: the address translator under a symbolic environment (access
// stream over two pages and two PIDs, translation and memory replies in any
// order, back-pressure patterns) with a monitor for faithful, exactly-once
// forwarding and response routing.

import (
	"github.com/sarchlab/akita/v4/mem/mem"
	"github.com/sarchlab/akita/v4/mem/vm"
	"github.com/sarchlab/akita/v4/sim"
	verif "github.com/sarchlab/mgpusim/v4/zzverif"
	"github.com/sarchlab/mgpusim/v4/zzverif/simstub"
)

type zzvAccess struct {
	tag       int
	msg       mem.AccessReq
	isWrite   bool
	vaddr     uint64
	pid       vm.PID
	data      []byte
	forwarded bool
	fwdID     string
	memRepl   bool
	rspData   []byte
	answered  bool
}

type zzvTrans struct {
	id      string
	pid     vm.PID
	vpage   uint64
	replied bool
	paddr   uint64
}

type zzvATEnv struct {
	c     *Comp
	accs  []*zzvAccess
	trans []*zzvTrans
}

func (e *zzvATEnv) inject() {
	a := &zzvAccess{tag: len(e.accs)}
	a.vaddr = verif.U64()
	verif.Assume(verif.And(a.vaddr >= 0x1000, a.vaddr < 0x3000)) // two virtual pages
	p := verif.U32()
	verif.Assume(verif.Or(p == 1, p == 2))
	a.pid = vm.PID(p)
	if verif.Choice(2) == 0 {
		a.msg = mem.ReadReqBuilder{}.WithSrc("Agent").WithDst(e.c.topPort.AsRemote()).WithAddress(a.vaddr).
			WithPID(a.pid).WithByteSize(4).WithInfo(a.tag).Build()
	} else {
		a.isWrite = true
		a.data = verif.Bytes(4)
		a.msg = mem.WriteReqBuilder{}.WithSrc("Agent").WithDst(e.c.topPort.AsRemote()).WithAddress(a.vaddr).
			WithPID(a.pid).WithData(a.data).WithDirtyMask([]bool{true, verif.Bool(), false, true}).WithInfo(a.tag).Build()
	}
	if e.c.topPort.Deliver(a.msg) != nil {
		return
	}
	e.accs = append(e.accs, a)
}

func (e *zzvATEnv) drainTrans() {
	for {
		m := e.c.translationPort.RetrieveOutgoing()
		if m == nil {
			return
		}
		r, ok := m.(*vm.TranslationReq)
		verif.Assert(ok, "translation port emitted something that is not a translation request")
		if !ok {
			continue
		}
		verif.Assert(r.VAddr%4096 == 0, "translation request is not for a page-aligned address")
		verif.Assert(r.Dst == "MMU" && r.DeviceID == 7, "translation request has the wrong destination or device id")
		e.trans = append(e.trans, &zzvTrans{id: r.ID, pid: r.PID, vpage: r.VAddr})
	}
}

func (e *zzvATEnv) replyTrans(t *zzvTrans) {
	pa := verif.U64() &^ 0xfff
	verif.Assume(pa < 1<<40)
	page := vm.Page{PID: t.pid, VAddr: t.vpage, PAddr: pa, PageSize: 4096, Valid: true, DeviceID: 7}
	rsp := vm.TranslationRspBuilder{}.WithSrc("MMU").WithDst(e.c.translationPort.AsRemote()).WithRspTo(t.id).WithPage(page).Build()
	if e.c.translationPort.Deliver(rsp) != nil {
		return
	}
	t.replied, t.paddr = true, pa
}

func (e *zzvATEnv) drainBottom() {
	for {
		m := e.c.bottomPort.RetrieveOutgoing()
		if m == nil {
			return
		}
		var tag int
		var addr uint64
		var okKind bool
		var a *zzvAccess
		switch q := m.(type) {
		case *mem.ReadReq:
			t, isInt := q.Info.(int)
			verif.Assert(isInt && t >= 0 && t < len(e.accs), "forwarded request lost the original's Info")
			if !isInt || t < 0 || t >= len(e.accs) {
				continue
			}
			tag, addr, a = t, q.Address, e.accs[t]
			okKind = !a.isWrite && q.AccessByteSize == 4
		case *mem.WriteReq:
			t, isInt := q.Info.(int)
			verif.Assert(isInt && t >= 0 && t < len(e.accs), "forwarded request lost the original's Info")
			if !isInt || t < 0 || t >= len(e.accs) {
				continue
			}
			tag, addr, a = t, q.Address, e.accs[t]
			okKind = a.isWrite && len(q.Data) == 4 && len(q.DirtyMask) == 4
			if okKind {
				w := a.msg.(*mem.WriteReq)
				for i := 0; i < 4; i++ {
					okKind = verif.And(okKind, verif.And(q.Data[i] == w.Data[i], q.DirtyMask[i] == w.DirtyMask[i]))
				}
			}
		default:
			verif.Fail("bottom port emitted something that is not an access request")
			continue
		}
		_ = tag
		verif.Assert(okKind, "forwarded access changed kind, size, data or byte mask")
		verif.Assert(!a.forwarded, "an access left the translator twice")
		verif.Assert(m.Meta().Dst == "Mem", "forwarded access is not addressed to the memory provider")
		// the physical address must come from a translation of this access's own (PID, page)
		fromOwn := false
		for _, t := range e.trans {
			if t.replied {
				match := verif.And(t.pid == a.pid, t.vpage == a.vaddr&^0xfff)
				fromOwn = verif.Or(fromOwn, verif.And(match, addr == t.paddr+a.vaddr%4096))
			}
		}
		verif.Assert(fromOwn, "physical address is not (page base of a translation for the access's own PID and page) + page offset")
		a.forwarded, a.fwdID = true, m.Meta().ID
	}
}

func (e *zzvATEnv) replyMem(a *zzvAccess) {
	var rsp sim.Msg
	if a.isWrite {
		rsp = mem.WriteDoneRspBuilder{}.WithSrc("Mem").WithDst(e.c.bottomPort.AsRemote()).WithRspTo(a.fwdID).Build()
	} else {
		a.rspData = verif.Bytes(4)
		rsp = mem.DataReadyRspBuilder{}.WithSrc("Mem").WithDst(e.c.bottomPort.AsRemote()).WithRspTo(a.fwdID).WithData(a.rspData).Build()
	}
	if e.c.bottomPort.Deliver(rsp) != nil {
		return
	}
	a.memRepl = true
}

func (e *zzvATEnv) drainTop() {
	for {
		m := e.c.topPort.RetrieveOutgoing()
		if m == nil {
			return
		}
		rsp, ok := m.(mem.AccessRsp)
		verif.Assert(ok, "top port emitted something that is not an access response")
		if !ok {
			continue
		}
		var a *zzvAccess
		for _, x := range e.accs {
			if x.msg.Meta().ID == rsp.GetRspTo() {
				a = x
			}
		}
		verif.Assert(a != nil, "response does not carry the ID of any accepted access")
		if a == nil {
			continue
		}
		verif.Assert(!a.answered, "an access was answered twice")
		verif.Assert(a.memRepl, "an access was answered before memory responded")
		verif.Assert(m.Meta().Dst == "Agent", "response is not addressed to the original requester")
		a.answered = true
		if d, isData := m.(*mem.DataReadyRsp); isData {
			verif.Assert(!a.isWrite && len(d.Data) == 4, "a write was answered with data / wrong length")
			if !a.isWrite && len(d.Data) == 4 && a.memRepl {
				same := true
				for i := 0; i < 4; i++ {
					same = verif.And(same, d.Data[i] == a.rspData[i])
				}
				verif.Assert(same, "returned data differs from what memory returned")
				verif.Observe(uint64(d.Data[0]))
			}
		} else {
			verif.Assert(a.isWrite, "a read was answered without data")
		}
	}
}

// VerifAT explores K environment steps, then lets a fair environment finish
// and requires every accepted access to have been forwarded and answered
// exactly once.
func VerifAT() {
	width := 1 + verif.Choice(2)
	K := verif.Param("steps", 6)
	maxAcc := verif.Param("maxAcc", 3)
	eng := simstub.NewEngine()
	c := MakeBuilder().WithEngine(eng).WithNumReqPerCycle(width).WithLog2PageSize(12).WithDeviceID(7).
		WithMemoryProviderType("single").WithMemoryProviders("Mem").WithTranslationProvider("MMU").Build("AT")
	for _, p := range []sim.Port{c.topPort, c.bottomPort, c.translationPort, c.ctrlPort} {
		p.SetConnection(simstub.NewConn("conn"))
	}
	e := &zzvATEnv{c: c}
	// requester/back-pressure personality: which outgoing ports are drained every step
	pers := verif.Choice(4) // 0: all every step; 1: top only at the end; 2: bottom every 2nd step; 3: translation every 2nd step
	for step := 0; step < K; step++ {
		var acts []int
		if len(e.accs) < maxAcc {
			acts = append(acts, 0)
		}
		var openT []*zzvTrans
		for _, t := range e.trans {
			if !t.replied {
				openT = append(openT, t)
			}
		}
		if len(openT) > 0 {
			acts = append(acts, 1)
		}
		var openM []*zzvAccess
		for _, a := range e.accs {
			if a.forwarded && !a.memRepl {
				openM = append(openM, a)
			}
		}
		if len(openM) > 0 {
			acts = append(acts, 2)
		}
		acts = append(acts, 3)
		switch acts[verif.Choice(len(acts))] {
		case 0:
			e.inject()
		case 1:
			e.replyTrans(openT[verif.Choice(len(openT))])
		case 2:
			e.replyMem(openM[verif.Choice(len(openM))])
		case 3:
		}
		c.Tick()
		if pers != 3 || step%2 == 1 {
			e.drainTrans()
		}
		if pers != 2 || step%2 == 1 {
			e.drainBottom()
		}
		if pers != 1 {
			e.drainTop()
		}
	}
	// fair completion
	for i := 0; i < 8*maxAcc+8; i++ {
		for _, t := range e.trans {
			if !t.replied {
				e.replyTrans(t)
				break
			}
		}
		for _, a := range e.accs {
			if a.forwarded && !a.memRepl {
				e.replyMem(a)
				break
			}
		}
		c.Tick()
		e.drainTrans()
		e.drainBottom()
		e.drainTop()
	}
	for _, a := range e.accs {
		verif.Assert(a.forwarded, "an accepted access never left the translator")
		verif.Assert(a.answered, "an accepted access never received its response")
	}
}
