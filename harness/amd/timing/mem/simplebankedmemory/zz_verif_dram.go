package simplebankedmemory

// C17 harness: the banked memory model driven cycle by cycle; every request is
// compared with a flat byte-array model updated in arrival order.

import (
	"github.com/sarchlab/akita/v4/mem/mem"
	verif "github.com/sarchlab/mgpusim/v4/zzverif"
	"github.com/sarchlab/mgpusim/v4/zzverif/simstub"
)

type zzvCfg struct {
	banks                int
	log2Interleave       uint64
	depth, latency       int
	rowLog2              uint64
	rowMissDelay         int
	topBuf, postPipeline int
}

var zzvCfgs = []zzvCfg{
	{1, 6, 1, 1, 0, 0, 2, 1},
	{2, 3, 2, 1, 0, 0, 2, 2},
	{2, 6, 1, 2, 4, 2, 2, 1},
	{1, 3, 1, 1, 4, 3, 4, 2},
	{2, 3, 2, 2, 6, 1, 1, 1},
	// shortest pipeline with a one-entry top port: a second response becomes
	// ready while the first still occupies the outgoing buffer (failed Send)
	// within the quick tier's cycle bound
	{1, 6, 1, 1, 0, 0, 1, 2},
}

// addresses: same address, neighbouring dword, another interleave block / bank,
// another row of the same bank
var zzvAddrs = []uint64{0x100, 0x104, 0x108, 0x140, 0x1100}

type zzvMemReq struct {
	msg      mem.AccessReq
	isWrite  bool
	addr     uint64
	expect   []byte // reads: model contents at arrival
	answered bool
	bank     int
	rowMiss  bool
}

// VerifDRAM: every request gets exactly one response; reads return the most
// recent earlier-arrived write per byte (zero if none); masked writes modify
// only enabled bytes; final storage equals the model.
func VerifDRAM() {
	cfg := zzvCfgs[verif.Choice(len(zzvCfgs))]
	zzvRun(cfg, verif.Param("maxReq", 3), verif.Param("cycles", 8), 0)
}

// VerifDRAMBurst: the same monitor when several requests arrive in the same
// cycle (a burst of `burst` requests at cycle 0, top buffer large enough).
func VerifDRAMBurst() {
	cfg := zzvCfgs[verif.Choice(len(zzvCfgs))]
	cfg.topBuf = 4
	burst := verif.Param("burst", 3)
	zzvRun(cfg, burst, verif.Param("burstCycles", 2), burst)
}

func zzvRun(cfg zzvCfg, maxReq, K, burst int) {
	eng := simstub.NewEngine()
	c := MakeBuilder().WithEngine(eng).WithNumBanks(cfg.banks).WithLog2InterleaveSize(cfg.log2Interleave).
		WithBankPipelineDepth(cfg.depth).WithBankPipelineWidth(1).WithStageLatency(cfg.latency).
		WithRowBufferSizeLog2(cfg.rowLog2).WithRowMissDelay(cfg.rowMissDelay).
		WithTopPortBufferSize(cfg.topBuf).WithPostPipelineBufferSize(cfg.postPipeline).
		WithStorage(mem.NewStorageWithUnitSize(1<<20, 64)).Build("DRAM")
	c.topPort.SetConnection(simstub.NewConn("conn"))

	model := map[uint64]uint8{}
	var reqs []*zzvMemReq
	// classification of the run for the known-finding tag: did a row hit arrive
	// while an earlier row miss of the same bank was still unanswered?
	hitBehindMiss := false
	lastRow := map[int]uint64{}
	rowValid := map[int]bool{}
	tag := func() string {
		if hitBehindMiss {
			return " [a row hit arrived behind an unanswered row miss of the same bank]"
		}
		return " [no row hit behind a pending row miss]"
	}
	inject := func() {
		r := &zzvMemReq{addr: zzvAddrs[0]} // the first request fixes the reference address (symmetry)
		if len(reqs) > 0 {
			r.addr = zzvAddrs[verif.Choice(len(zzvAddrs))]
		}
		switch verif.Choice(3) {
		case 0:
			r.msg = mem.ReadReqBuilder{}.WithSrc("Agent").WithDst(c.topPort.AsRemote()).WithAddress(r.addr).WithByteSize(4).Build()
		case 1:
			r.isWrite = true
			d := verif.Bytes(4)
			r.msg = mem.WriteReqBuilder{}.WithSrc("Agent").WithDst(c.topPort.AsRemote()).WithAddress(r.addr).WithData(d).Build()
		case 2:
			r.isWrite = true
			d := verif.Bytes(4)
			m := []bool{verif.Bool(), false, true, verif.Bool()} // includes masks with holes
			r.msg = mem.WriteReqBuilder{}.WithSrc("Agent").WithDst(c.topPort.AsRemote()).WithAddress(r.addr).WithData(d).WithDirtyMask(m).Build()
		}
		if c.topPort.Deliver(r.msg) != nil {
			return // back-pressure: the request did not arrive
		}
		if cfg.rowLog2 > 0 && cfg.rowMissDelay > 0 {
			isz := uint64(1) << cfg.log2Interleave
			blk := r.addr / isz
			r.bank = int(blk % uint64(cfg.banks))
			local := (blk/uint64(cfg.banks))*isz + r.addr%isz
			row := local >> cfg.rowLog2
			r.rowMiss = !(rowValid[r.bank] && lastRow[r.bank] == row)
			if !r.rowMiss {
				for _, q := range reqs {
					if q.bank == r.bank && q.rowMiss && !q.answered {
						hitBehindMiss = true
					}
				}
			}
			lastRow[r.bank], rowValid[r.bank] = row, true
		}
		// arrival: apply to the model in arrival order
		if w, ok := r.msg.(*mem.WriteReq); ok {
			for i := 0; i < 4; i++ {
				if w.DirtyMask == nil {
					model[r.addr+uint64(i)] = w.Data[i]
				} else {
					model[r.addr+uint64(i)] = verif.Ite8(w.DirtyMask[i], w.Data[i], model[r.addr+uint64(i)])
				}
			}
		} else {
			r.expect = make([]byte, 4)
			for i := 0; i < 4; i++ {
				r.expect[i] = model[r.addr+uint64(i)]
			}
		}
		reqs = append(reqs, r)
	}
	drain := func() {
		for {
			m := c.topPort.RetrieveOutgoing()
			if m == nil {
				return
			}
			rsp, ok := m.(mem.AccessRsp)
			verif.Assert(ok, "memory emitted something that is not an access response")
			if !ok {
				continue
			}
			var r *zzvMemReq
			for _, q := range reqs {
				if q.msg.Meta().ID == rsp.GetRspTo() {
					r = q
				}
			}
			verif.Assert(r != nil, "response to an unknown request")
			if r == nil {
				continue
			}
			verif.Assert(!r.answered, "request answered twice")
			r.answered = true
			verif.Assert(m.Meta().Dst == "Agent", "response not addressed to the requester")
			if r.isWrite {
				_, ok := m.(*mem.WriteDoneRsp)
				verif.Assert(ok, "write answered with a non-write response")
			} else {
				d, ok := m.(*mem.DataReadyRsp)
				verif.Assert(ok, "read answered with a non-data response")
				if ok {
					verif.Assert(len(d.Data) == 4, "read response has the wrong length")
					same := true
					for i := 0; i < 4 && i < len(d.Data); i++ {
						same = verif.And(same, d.Data[i] == r.expect[i])
					}
					verif.Assert(same, "read did not return the most recent earlier-arrived write (or zero) for every byte"+tag())
					verif.Observe(uint64(d.Data[0]))
				}
			}
		}
	}
	drainMode := verif.Choice(3) // requester drains every cycle / every other cycle / only at the end
	for i := 0; i < burst; i++ {
		inject()
	}
	for cyc := 0; cyc < K; cyc++ {
		nact := 1
		if len(reqs) < maxReq {
			nact = 2
		}
		if verif.Choice(nact) == 1 {
			inject()
		}
		c.Tick()
		if drainMode == 0 || (drainMode == 1 && cyc%2 == 1) {
			drain() // otherwise: back-pressure on the top port this cycle
		}
	}
	// let everything finish: bounded number of idle cycles with a draining requester
	for i := 0; i < 24; i++ {
		c.Tick()
		drain()
	}
	for _, r := range reqs {
		verif.Assert(r.answered, "a request never received a response")
	}
	for _, a := range zzvAddrs {
		got, err := c.Storage.Read(a, 4)
		verif.Assert(err == nil, "storage read failed")
		same := true
		for i := 0; i < 4; i++ {
			same = verif.And(same, got[i] == model[a+uint64(i)])
		}
		verif.Assert(same, "final storage differs from the flat byte-array model"+tag())
	}
}
