package rdma

// C18 harness (RDMA engine): remote accesses in both directions with
// symbolic payloads, replies in any order, drain / restart at any time.

import (
	"github.com/sarchlab/akita/v4/mem/mem"
	"github.com/sarchlab/akita/v4/sim"
	verif "github.com/sarchlab/mgpusim/v4/zzverif"
	"github.com/sarchlab/mgpusim/v4/zzverif/simstub"
)

type zzvTx struct {
	orig       mem.AccessReq
	inside     bool // came from inside (L1) and goes out; otherwise outside-in
	isWrite    bool
	addr       uint64
	data       []byte
	forwarded  bool
	fwdID      string
	replied    bool
	rspData    []byte
	answered   bool
	afterDrain bool
}

type zzvRdmaEnv struct {
	c           *Comp
	txs         []*zzvTx
	draining    bool // a DrainReq was delivered and not yet restarted
	drainAck    bool
	restartSent bool
	slow        bool // the requesters read their responses only every third step (back-pressure on the response ports)
	readNow     bool
}

func (e *zzvRdmaEnv) inject(inside bool) {
	t := &zzvTx{inside: inside, addr: verif.U64()}
	port := e.c.RDMADataOutside
	src := sim.RemotePort("RemoteRDMA")
	if inside {
		port, src = e.c.RDMARequestInside, "L1"
	}
	if verif.Choice(2) == 0 {
		t.orig = mem.ReadReqBuilder{}.WithSrc(src).WithDst(port.AsRemote()).WithAddress(t.addr).WithByteSize(4).Build()
	} else {
		t.isWrite = true
		t.data = verif.Bytes(4)
		t.orig = mem.WriteReqBuilder{}.WithSrc(src).WithDst(port.AsRemote()).WithAddress(t.addr).WithData(t.data).
			WithDirtyMask([]bool{true, verif.Bool(), false, true}).Build()
	}
	if port.Deliver(t.orig) != nil {
		return
	}
	t.afterDrain = e.draining
	e.txs = append(e.txs, t)
}

func (e *zzvRdmaEnv) matchFwd(m sim.Msg, inside bool, wantDst sim.RemotePort, srcPort sim.Port) {
	var t *zzvTx
	for _, x := range e.txs { // forwarded in arrival order per direction
		if x.inside == inside && !x.forwarded {
			t = x
			break
		}
	}
	verif.Assert(t != nil, "a request was forwarded that never arrived")
	if t == nil {
		return
	}
	ok := false
	switch q := m.(type) {
	case *mem.ReadReq:
		ok = !t.isWrite && verif.Holds(verif.And(q.Address == t.addr, q.AccessByteSize == 4))
	case *mem.WriteReq:
		if t.isWrite && len(q.Data) == 4 && len(q.DirtyMask) == 4 {
			w := t.orig.(*mem.WriteReq)
			c := q.Address == t.addr
			for i := 0; i < 4; i++ {
				c = verif.And(c, verif.And(q.Data[i] == w.Data[i], q.DirtyMask[i] == w.DirtyMask[i]))
			}
			ok = verif.Holds(c)
		}
	}
	verif.Assert(ok, "forwarded remote access differs from the original (kind/address/size/data/mask) or is out of order")
	verif.Assert(m.Meta().Dst == wantDst, "remote access forwarded to the wrong module")
	verif.Assert(m.Meta().Src == srcPort.AsRemote(), "forwarded access does not carry the RDMA engine's port as source")
	if inside {
		verif.Assert(!t.afterDrain || !e.draining, "an inside request was forwarded between drain and restart")
	}
	t.forwarded, t.fwdID = true, m.Meta().ID
}

func (e *zzvRdmaEnv) drainPorts() {
	// one Tick handles control messages first, then forwards, then responses
	for {
		m := e.c.CtrlPort.RetrieveOutgoing()
		if m == nil {
			break
		}
		switch m.(type) {
		case *DrainRsp:
			inflight := false
			for _, t := range e.txs {
				if t.forwarded && !t.answered {
					inflight = true
				}
			}
			// with slow requesters a response may already sit in the port's
			// outgoing buffer (emitted, not yet read): "answered" is then not
			// observable here, so the drain condition is only checked when
			// the requesters read every step
			verif.Assert(e.slow || !inflight, "drain was acknowledged while a remote transaction was still in flight")
			verif.Assert(e.draining, "drain acknowledged without a drain request")
			e.drainAck = true
		case *RestartRsp:
			e.draining, e.drainAck, e.restartSent = false, false, false
		default:
			verif.Fail("unexpected message on the control port")
		}
	}
	for {
		m := e.c.RDMARequestOutside.RetrieveOutgoing()
		if m == nil {
			break
		}
		if _, isReq := m.(mem.AccessReq); isReq {
			e.matchFwd(m, true, "RemoteRDMA", e.c.RDMARequestOutside)
		} else {
			verif.Fail("unexpected message on the outside request port")
		}
	}
	for {
		m := e.c.RDMADataInside.RetrieveOutgoing()
		if m == nil {
			break
		}
		if _, isReq := m.(mem.AccessReq); isReq {
			e.matchFwd(m, false, "L2", e.c.RDMADataInside)
		} else {
			verif.Fail("unexpected message on the inside data port")
		}
	}
	if !e.slow || e.readNow {
		e.responses(e.c.RDMARequestInside, true, "L1")
		e.responses(e.c.RDMADataOutside, false, "RemoteRDMA")
	}
}

func (e *zzvRdmaEnv) responses(p sim.Port, inside bool, wantDst sim.RemotePort) {
	for {
		m := p.RetrieveOutgoing()
		if m == nil {
			return
		}
		rsp, ok := m.(mem.AccessRsp)
		verif.Assert(ok, "unexpected message where responses are returned")
		if !ok {
			continue
		}
		var t *zzvTx
		for _, x := range e.txs {
			if x.inside == inside && x.orig.Meta().ID == rsp.GetRspTo() {
				t = x
			}
		}
		verif.Assert(t != nil, "a response does not carry the ID of an original request")
		if t == nil {
			continue
		}
		verif.Assert(!t.answered, "a remote access was answered twice")
		verif.Assert(t.replied, "a remote access was answered before the owner replied")
		verif.Assert(m.Meta().Dst == wantDst, "response not returned to the originator")
		t.answered = true
		if d, isData := m.(*mem.DataReadyRsp); isData && t.replied && !t.isWrite {
			same := len(d.Data) == 4
			for i := 0; i < 4 && i < len(d.Data); i++ {
				same = verif.And(same, d.Data[i] == t.rspData[i])
			}
			verif.Assert(same, "response payload differs from the owner's reply")
			verif.Observe(uint64(d.Data[0]))
		}
	}
}

func (e *zzvRdmaEnv) reply(t *zzvTx) {
	port, src := e.c.RDMARequestOutside, sim.RemotePort("RemoteRDMA")
	if !t.inside {
		port, src = e.c.RDMADataInside, "L2"
	}
	var rsp sim.Msg
	if t.isWrite {
		rsp = mem.WriteDoneRspBuilder{}.WithSrc(src).WithDst(port.AsRemote()).WithRspTo(t.fwdID).Build()
	} else {
		t.rspData = verif.Bytes(4)
		rsp = mem.DataReadyRspBuilder{}.WithSrc(src).WithDst(port.AsRemote()).WithRspTo(t.fwdID).WithData(t.rspData).Build()
	}
	if port.Deliver(rsp) != nil {
		return
	}
	t.replied = true
}

// VerifRDMA explores K environment steps, then lets a fair environment finish.
func VerifRDMA() {
	eng := simstub.NewEngine()
	c := MakeBuilder().WithEngine(eng).WithBufferSize(1 + verif.Choice(2)).
		WithLocalModules(&mem.SinglePortMapper{Port: "L2"}).WithRemoteModules(&mem.SinglePortMapper{Port: "RemoteRDMA"}).Build("RDMA")
	for _, p := range []sim.Port{c.RDMARequestInside, c.RDMARequestOutside, c.RDMADataInside, c.RDMADataOutside, c.CtrlPort} {
		p.SetConnection(simstub.NewConn("conn"))
	}
	e := &zzvRdmaEnv{c: c}
	e.slow = verif.Choice(2) == 1
	K := verif.Param("steps", 6)
	maxTx := verif.Param("maxTx", 3)
	withDrain := verif.Param("drain", 1) == 1
	for step := 0; step < K; step++ {
		var acts []int
		if len(e.txs) < maxTx {
			acts = append(acts, 0, 1)
		}
		var open []*zzvTx
		for _, t := range e.txs {
			if t.forwarded && !t.replied {
				open = append(open, t)
			}
		}
		if len(open) > 0 {
			acts = append(acts, 2)
		}
		acts = append(acts, 3)
		if withDrain {
			if !e.draining {
				acts = append(acts, 4)
			} else if e.drainAck && !e.restartSent {
				acts = append(acts, 5)
			}
		}
		switch acts[verif.Choice(len(acts))] {
		case 0:
			e.inject(true)
		case 1:
			e.inject(false)
		case 2:
			e.reply(open[verif.Choice(len(open))])
		case 3:
		case 4:
			if c.CtrlPort.Deliver(DrainReqBuilder{}.WithSrc("CP").WithDst(c.CtrlPort.AsRemote()).Build()) == nil {
				e.draining = true
			}
		case 5:
			if !e.restartSent && c.CtrlPort.Deliver(RestartReqBuilder{}.WithSrc("CP").WithDst(c.CtrlPort.AsRemote()).Build()) == nil {
				e.restartSent = true
			}
		}
		c.Tick()
		e.readNow = step%3 == 2
		e.drainPorts()
	}
	e.readNow = true
	// fair completion: restart if draining, answer everything
	for i := 0; i < 10*maxTx+12; i++ {
		if e.draining && e.drainAck && !e.restartSent {
			if c.CtrlPort.Deliver(RestartReqBuilder{}.WithSrc("CP").WithDst(c.CtrlPort.AsRemote()).Build()) == nil {
				e.restartSent = true
			}
		}
		for _, t := range e.txs {
			if t.forwarded && !t.replied {
				e.reply(t)
				break
			}
		}
		c.Tick()
		e.drainPorts()
	}
	for _, t := range e.txs {
		verif.Assert(t.forwarded, "a remote access was never forwarded to its owner")
		verif.Assert(t.answered, "a remote access never received its response")
	}
}
