package rob

// C15 harness: the reorder buffer driven cycle by cycle by a symbolic
// environment (new requests, out-of-order replies, back-pressure on both
// sides, flush/restart), with a monitor for order, exactly-once, identity of
// the forwarded request, payload and capacity.

import (
	"github.com/sarchlab/akita/v4/mem/mem"
	"github.com/sarchlab/akita/v4/mem/vm"
	"github.com/sarchlab/akita/v4/sim"
	verif "github.com/sarchlab/mgpusim/v4/zzverif"
	"github.com/sarchlab/mgpusim/v4/zzverif/simstub"
)

type zzvReq struct {
	orig      mem.AccessReq
	isWrite   bool
	addr      uint64
	size      uint64
	pid       vm.PID
	data      []byte
	mask      []bool
	fwdID     string // ID of the forwarded request (known once it left the bottom port)
	forwarded bool
	replied   bool
	rspData   []byte
	answered  bool
	discarded bool
}

type zzvEnv struct {
	rb      *ReorderBuffer
	reqs    []*zzvReq // in acceptance (= delivery) order
	nextFwd int       // index of the next request expected on the bottom port
	nextRsp int       // index of the next request whose response is expected on top
	flushed bool      // flush acknowledged, restart not yet acknowledged
	ctrlOut int       // control messages delivered and not yet acknowledged
}

func zzvNewEnv(bufSize, width int) *zzvEnv {
	eng := simstub.NewEngine()
	rb := MakeBuilder().WithEngine(eng).WithBufferSize(bufSize).WithNumReqPerCycle(width).
		WithBottomUnit("Mem").Build("ROB")
	for _, p := range []sim.Port{rb.topPort, rb.bottomPort, rb.controlPort} {
		p.SetConnection(simstub.NewConn("conn"))
	}
	return &zzvEnv{rb: rb}
}

func (e *zzvEnv) inject(write bool) bool {
	// forwarded copies carry new IDs, so the monitor recognises a request on
	// the bottom port by its content: every request has its own (concrete)
	// address; pid, size, data and mask stay symbolic
	r := &zzvReq{isWrite: write, addr: 0x1000 * uint64(len(e.reqs)+1), pid: vm.PID(verif.U32())}
	if write {
		r.data = verif.Bytes(4)
		r.mask = []bool{verif.Bool(), verif.Bool(), verif.Bool(), verif.Bool()}
		r.orig = mem.WriteReqBuilder{}.WithSrc("Agent").WithDst(e.rb.topPort.AsRemote()).
			WithAddress(r.addr).WithPID(r.pid).WithData(r.data).WithDirtyMask(r.mask).Build()
	} else {
		r.size = uint64(verif.U8())
		r.orig = mem.ReadReqBuilder{}.WithSrc("Agent").WithDst(e.rb.topPort.AsRemote()).
			WithAddress(r.addr).WithPID(r.pid).WithByteSize(r.size).Build()
	}
	if e.rb.topPort.Deliver(r.orig) != nil {
		return false // incoming buffer full: back-pressure towards the requester
	}
	e.reqs = append(e.reqs, r)
	return true
}

// drainBottom retrieves one forwarded request and checks it against the
// original, in acceptance order.
func (e *zzvEnv) drainBottom() bool {
	m := e.rb.bottomPort.RetrieveOutgoing()
	if m == nil {
		return false
	}
	// requests accepted before an acknowledged flush may never be forwarded
	for e.nextFwd < len(e.reqs) && e.reqs[e.nextFwd].discarded && !e.reqs[e.nextFwd].forwarded {
		if zzvMatches(m, e.reqs[e.nextFwd]) {
			break
		}
		e.nextFwd++
	}
	verif.Assert(e.nextFwd < len(e.reqs), "a request was forwarded that was never accepted")
	if e.nextFwd >= len(e.reqs) {
		return true
	}
	r := e.reqs[e.nextFwd]
	e.nextFwd++
	verif.Assert(m.Meta().Dst == "Mem", "forwarded request is not addressed to the bottom unit")
	verif.Assert(m.Meta().Src == e.rb.bottomPort.AsRemote(), "forwarded request does not come from the bottom port")
	verif.Assert(zzvMatches(m, r), "forwarded request differs from the accepted one (kind/address/size/PID/data/mask) or is out of order")
	r.fwdID = m.Meta().ID
	r.forwarded = true
	return true
}

func zzvMatches(m sim.Msg, r *zzvReq) bool {
	switch q := m.(type) {
	case *mem.ReadReq:
		return !r.isWrite && q.Address == r.addr && q.AccessByteSize == r.size && q.PID == r.pid
	case *mem.WriteReq:
		if !r.isWrite || q.Address != r.addr || q.PID != r.pid || len(q.Data) != len(r.data) || len(q.DirtyMask) != len(r.mask) {
			return false
		}
		ok := true
		for i := range r.data {
			ok = verif.And(ok, q.Data[i] == r.data[i])
		}
		for i := range r.mask {
			ok = verif.And(ok, q.DirtyMask[i] == r.mask[i])
		}
		return ok
	}
	return false
}

// reply answers the i-th forwarded, unreplied request (any order).
func (e *zzvEnv) reply(r *zzvReq) bool {
	var rsp sim.Msg
	if r.isWrite {
		rsp = mem.WriteDoneRspBuilder{}.WithSrc("Mem").WithDst(e.rb.bottomPort.AsRemote()).WithRspTo(r.fwdID).Build()
	} else {
		r.rspData = verif.Bytes(4)
		rsp = mem.DataReadyRspBuilder{}.WithSrc("Mem").WithDst(e.rb.bottomPort.AsRemote()).WithRspTo(r.fwdID).WithData(r.rspData).Build()
	}
	if e.rb.bottomPort.Deliver(rsp) != nil {
		return false
	}
	r.replied = true
	return true
}

// drainTop retrieves one response and checks order, identity and payload.
func (e *zzvEnv) drainTop() bool {
	m := e.rb.topPort.RetrieveOutgoing()
	if m == nil {
		return false
	}
	for e.nextRsp < len(e.reqs) && e.reqs[e.nextRsp].discarded {
		e.nextRsp++
	}
	verif.Assert(e.nextRsp < len(e.reqs), "a response was produced with no pending request")
	if e.nextRsp >= len(e.reqs) {
		return true
	}
	r := e.reqs[e.nextRsp]
	e.nextRsp++
	rsp, isRsp := m.(mem.AccessRsp)
	verif.Assert(isRsp, "top port emitted something that is not an access response")
	if !isRsp {
		return true
	}
	verif.Assert(rsp.GetRspTo() == r.orig.Meta().ID, "response is out of acceptance order or carries the wrong request ID")
	verif.Assert(m.Meta().Dst == "Agent", "response is not addressed to the original requester")
	verif.Assert(r.replied, "response produced before the lower level answered")
	if r.isWrite {
		_, ok := m.(*mem.WriteDoneRsp)
		verif.Assert(ok, "a write was answered with a non-write response")
	} else {
		d, ok := m.(*mem.DataReadyRsp)
		verif.Assert(ok, "a read was answered with a non-data response")
		if ok && r.replied {
			verif.Assert(len(d.Data) == len(r.rspData), "response payload length differs from the lower level's")
			same := true
			for i := range r.rspData {
				same = verif.And(same, d.Data[i] == r.rspData[i])
			}
			verif.Assert(same, "response payload differs from the lower level's")
			verif.Observe(uint64(d.Data[0]))
		}
	}
	verif.Assert(!r.answered, "request answered twice")
	r.answered = true
	return true
}

func (e *zzvEnv) ctrl(discard bool) bool {
	b := mem.ControlMsgBuilder{}.WithSrc("Ctrl").WithDst(e.rb.controlPort.AsRemote())
	var m *mem.ControlMsg
	if discard {
		m = b.ToDiscardTransactions().Build()
	} else {
		m = b.ToRestart().Build()
	}
	return e.rb.controlPort.Deliver(m) == nil
}

func (e *zzvEnv) invariants() {
	verif.Assert(e.rb.transactions.Len() <= e.rb.bufferSize, "reorder buffer holds more than its capacity")
	verif.Assert(len(e.rb.toBottomReqIDToTransactionTable) <= e.rb.bufferSize, "lookup table exceeds the capacity")
	held := 0
	for _, r := range e.reqs {
		if !r.answered && !r.discarded {
			held++
		}
	}
	_ = held
}

// VerifROB explores all environment behaviours up to K steps from the empty
// buffer.
func VerifROB() {
	cfg := verif.Choice(3)
	bufSize, width := []int{1, 2, 2}[cfg], []int{1, 1, 2}[cfg]
	K := verif.Param("steps", 7)
	maxReq := verif.Param("maxReq", 3)
	withFlush := verif.Param("flush", 1) == 1
	e := zzvNewEnv(bufSize, width)
	e.explore(K, maxReq, withFlush, false)
}

// VerifROBLoaded first drives the buffer (deterministically, with symbolic
// payloads) into a loaded state - n requests accepted, forwarded and answered
// in reverse order while nobody drains the top port, so that the outgoing
// buffer is full and a finished head transaction is stalled behind it - and
// explores K further environment steps from there (flush/restart included).
func VerifROBLoaded() {
	width := 1
	bufSize := 2 + verif.Choice(2)
	n := bufSize + verif.Choice(2) // as many as fit, or one more waiting at the top port
	K := verif.Param("loadedSteps", 7)
	e := zzvNewEnv(bufSize, width)
	for i := 0; i < n; i++ {
		e.inject(i%2 == 1)
		e.rb.Tick()
		e.drainBottom()
	}
	for round := 0; round < 2*n+2; round++ {
		for i := len(e.reqs) - 1; i >= 0; i-- { // newest first
			if r := e.reqs[i]; r.forwarded && !r.replied {
				e.reply(r)
				break
			}
		}
		e.rb.Tick()
		e.drainBottom()
		e.invariants()
	}
	verif.Cover("loaded state reached")
	e.explore(K, n+1, true, true)
}

func (e *zzvEnv) explore(K, maxReq int, withFlush, directed bool) {
	phase := 0 // 0 normal, 1 flush sent, 2 flush acked, 3 restart sent
	for step := 0; step < K; step++ {
		if directed && (phase == 1 || phase == 3) {
			// a control request is being processed: just let time pass
			e.rb.Tick()
			phase = e.ctrlAck(phase)
			e.invariants()
			continue
		}
		// enabled environment actions
		var acts []int
		if len(e.reqs) < maxReq && phase != 1 && phase != 3 {
			acts = append(acts, 0, 1) // new read / new write
		}
		var repliable []*zzvReq
		for _, r := range e.reqs {
			if r.forwarded && !r.replied {
				repliable = append(repliable, r)
			}
		}
		if len(repliable) > 0 {
			acts = append(acts, 2)
		}
		acts = append(acts, 3, 4, 5) // drain bottom / drain top / idle
		if withFlush && step < K-2 {
			if phase == 0 && len(e.reqs) > 0 {
				acts = append(acts, 6)
			} else if phase == 2 {
				acts = append(acts, 7)
			}
		}
		switch acts[verif.Choice(len(acts))] {
		case 0:
			e.inject(false)
		case 1:
			e.inject(true)
		case 2:
			e.reply(repliable[verif.Choice(len(repliable))])
		case 3:
			e.drainBottom()
		case 4:
			e.drainTop()
		case 5:
		case 6:
			if e.ctrl(true) {
				phase = 1
			}
		case 7:
			if e.ctrl(false) {
				phase = 3
			}
		}
		e.rb.Tick()
		phase = e.ctrlAck(phase)
		e.invariants()
	}
	// drain what is left and check it too
	for e.drainBottom() {
	}
	for e.drainTop() {
	}
}

// ctrlAck consumes a control acknowledgement, if any, and advances the phase.
func (e *zzvEnv) ctrlAck(phase int) int {
	m := e.rb.controlPort.RetrieveOutgoing()
	if m == nil {
		return phase
	}
	c, ok := m.(*mem.ControlMsg)
	verif.Assert(ok && c.NotifyDone, "control port emitted something that is not a done notification")
	verif.Assert(phase == 1 || phase == 3, "control acknowledgement without a control request")
	if phase == 1 {
		for _, r := range e.reqs {
			if !r.answered {
				r.discarded = true
			}
		}
		// whatever already sits in the top outgoing buffer was emitted before the flush
		for e.drainTopBeforeFlush() {
		}
		return 2
	}
	if phase == 3 {
		// restart drains the ports: requests delivered between the flush and
		// the restart were never accepted and are dropped with the rest
		for _, r := range e.reqs {
			if !r.answered {
				r.discarded = true
			}
		}
		// everything still buffered towards the bottom belongs to discarded requests
		for e.rb.bottomPort.RetrieveOutgoing() != nil {
		}
		return 0
	}
	return phase
}

// responses that were already in the outgoing buffer when the flush was
// acknowledged are not "delivered after the flush": accept them in order.
func (e *zzvEnv) drainTopBeforeFlush() bool {
	m := e.rb.topPort.RetrieveOutgoing()
	if m == nil {
		return false
	}
	rsp, ok := m.(mem.AccessRsp)
	verif.Assert(ok, "top port emitted something that is not an access response")
	if !ok {
		return true
	}
	found := false
	for _, r := range e.reqs {
		if r.orig.Meta().ID == rsp.GetRspTo() && r.replied {
			found = true
			r.answered = true
		}
	}
	verif.Assert(found, "response for an unknown or unanswered request")
	return true
}
