package cp

// C11 harness (DMA-engine path): H2D/D2H requests split into access-unit
// transactions; replies arrive in any order.

import (
	"github.com/sarchlab/akita/v4/mem/mem"
	"github.com/sarchlab/akita/v4/sim"
	"github.com/sarchlab/mgpusim/v4/amd/protocol"
	verif "github.com/sarchlab/mgpusim/v4/zzverif"
	"github.com/sarchlab/mgpusim/v4/zzverif/simstub"
)

// VerifDMA: for a copy of n bytes at a symbolic address (access unit 8 bytes):
// the generated memory transactions tile the range exactly, in order, none
// crossing an access unit, carrying the right slices; the completion response
// is sent exactly once and only after the last transaction completed, for any
// reply order; D2H assembles exactly the bytes memory returned.
func VerifDMA() {
	eng := simstub.NewEngine()
	dma := NewDMAEngine("DMA", eng, &mem.SinglePortMapper{Port: "Mem"})
	dma.Log2AccessSize = 3
	dma.ToCP.SetConnection(simstub.NewConn("c"))
	dma.ToMem.SetConnection(simstub.NewConn("m"))
	lens := []int{1, 7, 8, 9, 16, 17, 20}
	n := lens[verif.Choice(len(lens))]
	addr := verif.U64()
	verif.Assume(addr < 1<<40)
	h2d := verif.Choice(2) == 0
	cpPort := sim.NewPort(nil, 4, 4, "CP")
	var req sim.Msg
	var src, dst []byte
	if h2d {
		src = verif.Bytes(n)
		req = protocol.NewMemCopyH2DReq(cpPort, dma.ToCP, src, addr)
	} else {
		dst = make([]byte, n)
		req = protocol.NewMemCopyD2HReq(cpPort, dma.ToCP, addr, dst)
	}
	verif.Assert(dma.ToCP.Deliver(req) == nil, "DMA did not accept the request")
	type sub struct {
		msg  sim.Msg
		off  uint64
		n    uint64
		data []byte
		done bool
	}
	var subs []*sub
	cursor := uint64(0)
	drain := func() {
		for {
			m := dma.ToMem.RetrieveOutgoing()
			if m == nil {
				return
			}
			s := &sub{msg: m, off: cursor}
			var a uint64
			switch q := m.(type) {
			case *mem.WriteReq:
				verif.Assert(h2d, "a write transaction for a device-to-host copy")
				a, s.n = q.Address, uint64(len(q.Data))
				ok := true
				for i := range q.Data {
					if cursor+uint64(i) < uint64(n) && h2d {
						ok = verif.And(ok, q.Data[i] == src[cursor+uint64(i)])
					}
				}
				verif.Assert(ok, "a write transaction does not carry the matching slice of the host buffer")
			case *mem.ReadReq:
				verif.Assert(!h2d, "a read transaction for a host-to-device copy")
				a, s.n = q.Address, q.AccessByteSize
			default:
				verif.Fail("DMA emitted something that is not a memory access")
				continue
			}
			verif.Assert(a == addr+cursor, "transactions do not tile the range contiguously (gap or overlap)")
			verif.Assert(s.n >= 1 && (a&7)+s.n <= 8, "a transaction is empty or crosses an access unit")
			verif.Assert(cursor+s.n <= uint64(n), "transactions extend beyond the requested range")
			verif.Assert(m.Meta().Dst == "Mem", "transaction not routed to the memory module")
			cursor += s.n
			subs = append(subs, s)
		}
	}
	completions := 0
	checkCP := func() {
		for {
			m := dma.ToCP.RetrieveOutgoing()
			if m == nil {
				return
			}
			rsp, ok := m.(*sim.GeneralRsp)
			verif.Assert(ok && rsp.OriginalReq == req, "completion response does not refer to the request")
			completions++
			all := cursor == uint64(n)
			for _, s := range subs {
				all = all && s.done
			}
			verif.Assert(all, "completion was reported before all memory transactions completed")
		}
	}
	for i := 0; i < 8; i++ {
		dma.Tick()
		drain()
		checkCP()
	}
	verif.Assert(cursor == uint64(n), "the transactions do not cover the whole range")
	// reply in a symbolic order
	for remaining := len(subs); remaining > 0; remaining-- {
		var open []*sub
		for _, s := range subs {
			if !s.done {
				open = append(open, s)
			}
		}
		s := open[verif.Choice(len(open))]
		var rsp sim.Msg
		if h2d {
			rsp = mem.WriteDoneRspBuilder{}.WithSrc("Mem").WithDst(dma.ToMem.AsRemote()).WithRspTo(s.msg.Meta().ID).Build()
		} else {
			s.data = verif.Bytes(int(s.n))
			rsp = mem.DataReadyRspBuilder{}.WithSrc("Mem").WithDst(dma.ToMem.AsRemote()).WithRspTo(s.msg.Meta().ID).WithData(s.data).Build()
		}
		verif.Assert(dma.ToMem.Deliver(rsp) == nil, "DMA did not accept a memory response")
		s.done = true
		dma.Tick()
		dma.Tick()
		drain()
		checkCP()
	}
	for i := 0; i < 4; i++ {
		dma.Tick()
		checkCP()
	}
	verif.Assert(completions == 1, "the copy did not complete exactly once")
	if !h2d {
		same := true
		for _, s := range subs {
			for i := uint64(0); i < s.n && s.off+i < uint64(n); i++ {
				same = verif.And(same, dst[s.off+i] == s.data[i])
			}
		}
		verif.Assert(same, "the host buffer does not hold exactly the bytes memory returned for each position")
		verif.Observe(uint64(dst[0]))
	}
}
