package dispatching

// C09 harness: two dispatchers sharing one CU resource pool and the CP's
// ports; the compute units and the driver are played by the harness.

import (
	"github.com/sarchlab/akita/v4/sim"
	"github.com/sarchlab/mgpusim/v4/amd/insts"
	"github.com/sarchlab/mgpusim/v4/amd/kernels"
	"github.com/sarchlab/mgpusim/v4/amd/protocol"
	"github.com/sarchlab/mgpusim/v4/amd/timing/cp/internal/resource"
	verif "github.com/sarchlab/mgpusim/v4/zzverif"
	"github.com/sarchlab/mgpusim/v4/zzverif/simstub"
)

// a tiny compute unit: 2 SIMDs x 2 wavefront slots, 2 VGPR units per SIMD,
// 4 SGPR units, 4 LDS units
type zzvCU struct{ name sim.RemotePort }

func (c zzvCU) DispatchingPort() sim.RemotePort { return c.name }
func (c zzvCU) WfPoolSizes() []int              { return []int{2, 2} }
func (c zzvCU) VRegCounts() []int               { return []int{512, 512} }
func (c zzvCU) SRegCount() int                  { return 64 }
func (c zzvCU) LDSBytes() int                   { return 1024 }

type zzvCP struct{ sim.HookableBase }

func (*zzvCP) Name() string { return "CP" }

type zzvMapped struct {
	req    *protocol.MapWGReq
	kernel int
	done   bool
}

type zzvKernel struct {
	req       *protocol.LaunchKernelReq
	co        *insts.KernelCodeObject
	nWG       int
	launched  bool
	responses int
}

type zzvDispEnv struct {
	ks       []*zzvKernel
	mapped   []*zzvMapped
	toCUs    sim.Port
	toDriver sim.Port
	two      bool
}

func zzvUnits(a, g int) int { return (a + g - 1) / g }

func (e *zzvDispEnv) kernelOf(m *protocol.MapWGReq) int {
	if e.two && m.WorkGroup.Packet == e.ks[1].req.Packet {
		return 1
	}
	return 0
}

// accept one map request from the dispatchers (the CU takes it) and check it
func (e *zzvDispEnv) accept() {
	msg := e.toCUs.RetrieveOutgoing()
	if msg == nil {
		return
	}
	m, ok := msg.(*protocol.MapWGReq)
	verif.Assert(ok, "dispatcher emitted something that is not a map request")
	if !ok {
		return
	}
	kidx := e.kernelOf(m)
	for _, o := range e.mapped {
		verif.Assert(!(o.kernel == kidx && o.req.WorkGroup.IDX == m.WorkGroup.IDX), "a work-group was mapped twice")
	}
	k := e.ks[kidx]
	verif.Assert(m.PID == 1 && m.WorkGroup != nil, "map request lost PID or work-group")
	sgU := zzvUnits(int(k.co.WFSgprCount), 16)
	vgU := zzvUnits(int(k.co.WIVgprCount), 4)
	ldsU := zzvUnits(int(k.co.GroupSegmentByteSize), 256)
	verif.Assert(len(m.Wavefronts) == len(m.WorkGroup.Wavefronts), "map request does not place every wavefront of the work-group")
	slots := map[int]int{}
	for i, l := range m.Wavefronts {
		verif.Assert(l.SIMDID >= 0 && l.SIMDID < 2, "wavefront mapped to a SIMD that does not exist")
		slots[l.SIMDID]++
		verif.Assert(l.SGPROffset%64 == 0 && l.SGPROffset/64+sgU <= 4, "scalar registers claimed beyond the unit's capacity")
		verif.Assert(l.VGPROffset%16 == 0 && l.VGPROffset/16+vgU <= 2, "vector registers claimed beyond the SIMD's capacity")
		verif.Assert(l.LDSOffset%256 == 0 && l.LDSOffset/256+ldsU <= 4, "LDS claimed beyond the unit's capacity")
		for j := 0; j < i; j++ {
			o := m.Wavefronts[j]
			verif.Assert(o.SGPROffset+64*sgU <= l.SGPROffset || l.SGPROffset+64*sgU <= o.SGPROffset, "two wavefronts of a work-group share scalar registers")
			if o.SIMDID == l.SIMDID {
				verif.Assert(o.VGPROffset+16*vgU <= l.VGPROffset || l.VGPROffset+16*vgU <= o.VGPROffset, "two wavefronts of a work-group share vector registers")
			}
		}
	}
	for _, r := range e.mapped { // resident work-groups on the same compute unit
		if r.done || r.req.Dst != m.Dst {
			continue
		}
		rk := e.ks[r.kernel]
		rsg, rvg, rlds := zzvUnits(int(rk.co.WFSgprCount), 16), zzvUnits(int(rk.co.WIVgprCount), 4), zzvUnits(int(rk.co.GroupSegmentByteSize), 256)
		for _, o := range r.req.Wavefronts {
			slots[o.SIMDID]++
			for _, l := range m.Wavefronts {
				verif.Assert(o.SGPROffset+64*rsg <= l.SGPROffset || l.SGPROffset+64*sgU <= o.SGPROffset, "scalar registers of simultaneously resident work-groups overlap")
				if o.SIMDID == l.SIMDID {
					verif.Assert(o.VGPROffset+16*rvg <= l.VGPROffset || l.VGPROffset+16*vgU <= o.VGPROffset, "vector registers of simultaneously resident work-groups overlap")
				}
			}
		}
		if ldsU > 0 && rlds > 0 && len(m.Wavefronts) > 0 && len(r.req.Wavefronts) > 0 {
			a, b := m.Wavefronts[0].LDSOffset, r.req.Wavefronts[0].LDSOffset
			verif.Assert(a+256*ldsU <= b || b+256*rlds <= a, "LDS of simultaneously resident work-groups overlaps")
		}
	}
	for _, n := range slots {
		verif.Assert(n <= 2, "more wavefronts resident on a SIMD than it has slots")
	}
	e.mapped = append(e.mapped, &zzvMapped{req: m, kernel: kidx})
}

func (e *zzvDispEnv) complete(r *zzvMapped) {
	c := protocol.WGCompletionMsgBuilder{}.WithSrc(r.req.Dst).WithDst(e.toCUs.AsRemote()).WithRspTo([]string{r.req.ID}).Build()
	if e.toCUs.Deliver(c) == nil {
		r.done = true
	}
}

func (e *zzvDispEnv) driverSide() {
	for {
		msg := e.toDriver.RetrieveOutgoing()
		if msg == nil {
			return
		}
		rsp, ok := msg.(*protocol.LaunchKernelRsp)
		verif.Assert(ok, "unexpected message to the driver")
		if !ok {
			continue
		}
		for ki, k := range e.ks {
			if rsp.RspTo == k.req.ID {
				k.responses++
				n := 0
				for _, m := range e.mapped {
					if m.kernel == ki && m.done {
						n++
					}
				}
				verif.Assert(n == k.nWG, "kernel completion was reported before every work-group had been mapped and completed")
			}
		}
	}
}

// VerifDispatch: every work-group mapped exactly once within capacity and
// without overlapping resident work-groups; resources returned on completion;
// exactly one launch response per kernel, after its last completion; a
// completion of one kernel never completes another.
func VerifDispatch() {
	wide := verif.Param("wide", 0) == 1
	nCU := 1 + verif.Choice(2)
	portCap, kOver, lOver := 1, 1, 0
	if wide {
		portCap, kOver, lOver = 1+verif.Choice(2), verif.Choice(2), verif.Choice(2)
	}
	e := &zzvDispEnv{}
	comp := simstub.NewComp("CP")
	e.toCUs = sim.NewPort(comp, 8, portCap, "CP.ToCUs")
	e.toDriver = sim.NewPort(comp, 4, 1, "CP.ToDriver")
	e.toCUs.SetConnection(simstub.NewConn("c"))
	e.toDriver.SetConnection(simstub.NewConn("d"))
	pool := resource.NewCUResourcePool()
	alg := []string{"round-robin", "partition", "greedy"}[verif.Choice(verif.Param("algs", 1))]
	b := MakeBuilder().WithCP(&zzvCP{}).WithAlg(alg).WithCUResourcePool(pool).
		WithDispatchingPort(e.toCUs).WithRespondingPort(e.toDriver).
		WithConstantKernelOverhead(kOver).WithConstantKernelLaunchOverhead(lOver).
		WithSubsequentKernelLaunchOverhead(0)
	disp := []Dispatcher{b.Build("D0"), b.Build("D1")}
	for i := 0; i < nCU; i++ {
		for _, d := range disp {
			d.RegisterCU(zzvCU{name: sim.RemotePort("CU" + string(rune('0'+i)))})
		}
	}
	mkKernel := func(id int) *zzvKernel {
		k := &zzvKernel{}
		// the resource entry explores every demand; here one dimension per
		// kernel is symbolic (all three for kernel A when wide)
		sg, vg, lds := uint16(1), uint16(1), uint32(0)
		dim := verif.Choice(3)
		if wide && id == 0 {
			dim = 3
		}
		if dim == 3 || dim == 0 {
			sg = verif.U16()
			verif.Assume(verif.And(sg >= 1, sg <= 32))
		}
		if dim == 3 || dim == 1 {
			vg = verif.U16()
			verif.Assume(verif.And(vg >= 1, vg <= 8))
		}
		if dim == 3 || dim == 2 {
			lds = verif.U32()
			verif.Assume(lds <= 512)
		}
		k.co = &insts.KernelCodeObject{KernelCodeObjectMeta: &insts.KernelCodeObjectMeta{WFSgprCount: sg, WIVgprCount: vg, GroupSegmentByteSize: lds}}
		k.nWG, k.co = 1, k.co
		wgSize := uint16(64)
		if id == 0 || wide {
			k.nWG = 1 + verif.Choice(verif.Param("maxWG", 3))
			wgSize = uint16(64 * (1 + verif.Choice(2)))
		}
		pkt := &kernels.HsaKernelDispatchPacket{WorkgroupSizeX: wgSize, WorkgroupSizeY: 1, WorkgroupSizeZ: 1,
			GridSizeX: uint32(k.nWG) * uint32(wgSize), GridSizeY: 1, GridSizeZ: 1}
		k.req = &protocol.LaunchKernelReq{PID: 1, Packet: pkt, CodeObject: k.co}
		k.req.ID = "kernel" + string(rune('A'+id))
		k.req.Src, k.req.Dst = "Driver", "CP.ToDriver"
		return k
	}
	e.ks = []*zzvKernel{mkKernel(0)}
	e.two = verif.Param("kernels", 2) == 2 && verif.Choice(2) == 1
	if e.two {
		e.ks = append(e.ks, mkKernel(1))
	}
	disp[0].StartDispatching(e.ks[0].req)
	e.ks[0].launched = true
	K := verif.Param("steps", 8)
	for step := 0; step < K; step++ {
		acts := []int{0} // the CU accepts one map request (idle if there is none)
		if wide {
			acts = append(acts, 1) // idle
		}
		var running []*zzvMapped
		for _, m := range e.mapped {
			if !m.done {
				running = append(running, m)
			}
		}
		if len(running) > 0 {
			acts = append(acts, 2)
		}
		if e.two && !e.ks[1].launched {
			acts = append(acts, 3)
		}
		switch acts[verif.Choice(len(acts))] {
		case 0:
			e.accept()
		case 2:
			e.complete(running[verif.Choice(len(running))])
		case 3:
			disp[1].StartDispatching(e.ks[1].req)
			e.ks[1].launched = true
		}
		for _, d := range disp {
			d.Tick()
		}
		e.driverSide()
	}
	// fair completion: accept everything, complete everything
	for i := 0; i < 40; i++ {
		if e.two && !e.ks[1].launched {
			disp[1].StartDispatching(e.ks[1].req)
			e.ks[1].launched = true
		}
		e.accept()
		for _, r := range e.mapped {
			if !r.done {
				e.complete(r)
				break
			}
		}
		for _, d := range disp {
			d.Tick()
		}
		e.driverSide()
	}
	for ki, k := range e.ks {
		n := 0
		for _, m := range e.mapped {
			if m.kernel == ki {
				n++
			}
		}
		verif.Assert(n == k.nWG, "not every work-group of a kernel was mapped exactly once")
		verif.Assert(k.responses == 1, "a kernel did not receive exactly one completion response")
	}
	for i := 0; i < nCU; i++ {
		cu := pool.GetCU(i).(*resource.CUResourceImpl)
		verif.Assert(cu.ZzvAllFree(2), "resources were not all returned after every work-group finished")
	}
}
