package resource

// C09 harness (resource side): the real CUResourceImpl and masks driven by a
// symbolic-demand sequence of reserve/free operations; a shadow list of the
// resident work-groups is the oracle.

import (
	"github.com/sarchlab/akita/v4/sim"
	"github.com/sarchlab/mgpusim/v4/amd/insts"
	"github.com/sarchlab/mgpusim/v4/amd/kernels"
	verif "github.com/sarchlab/mgpusim/v4/zzverif"
)

// ZzvAllFree: every mask unit is free and every wavefront slot is back.
func (r *CUResourceImpl) ZzvAllFree(slotsPerSIMD int) bool {
	if len(r.reservedWGs) != 0 {
		return false
	}
	if m, ok := r.sregMask.(*resourceMaskImpl); ok && m.statusCount(allocStatusFree) != len(m.mask) {
		return false
	}
	if m, ok := r.ldsMask.(*resourceMaskImpl); ok && m.statusCount(allocStatusFree) != len(m.mask) {
		return false
	}
	for _, vm := range r.vregMasks {
		if m, ok := vm.(*resourceMaskImpl); ok && m.statusCount(allocStatusFree) != len(m.mask) {
			return false
		}
	}
	for _, n := range r.wfPoolFreeCount {
		if n != slotsPerSIMD {
			return false
		}
	}
	return true
}

// a tiny compute unit: 2 SIMDs x 2 wavefront slots, 2 VGPR units per SIMD,
// 4 SGPR units, 4 LDS units
type zzvCU struct{}

func (zzvCU) DispatchingPort() sim.RemotePort { return "CU" }
func (zzvCU) WfPoolSizes() []int              { return []int{2, 2} }
func (zzvCU) VRegCounts() []int               { return []int{512, 512} }
func (zzvCU) SRegCount() int                  { return 64 }
func (zzvCU) LDSBytes() int                   { return 1024 }

type zzvResident struct {
	wg   *kernels.WorkGroup
	locs []WfLocation
	sg   int // units
	vg   int
	lds  int
}

func zzvUnits(a, g int) int { return (a + g - 1) / g }

func zzvCodeObject(all bool) *insts.KernelCodeObject {
	sg, vg, lds := uint16(1), uint16(1), uint32(0)
	dim := 3
	if !all {
		dim = verif.Choice(3)
	}
	if dim == 3 || dim == 0 {
		sg = verif.U16()
		verif.Assume(verif.And(sg >= 1, sg <= 32))
	}
	if dim == 3 || dim == 1 {
		vg = verif.U16()
		verif.Assume(verif.And(vg >= 1, vg <= 8))
	}
	if dim == 3 || dim == 2 {
		lds = verif.U32()
		verif.Assume(lds <= 512)
	}
	return &insts.KernelCodeObject{KernelCodeObjectMeta: &insts.KernelCodeObjectMeta{WFSgprCount: sg, WIVgprCount: vg, GroupSegmentByteSize: lds}}
}

func zzvOverlap(a, la, b, lb int) bool {
	return verif.And(verif.And(la > 0, lb > 0), verif.And(a < b+lb, b < a+la))
}

// VerifReserveFree: from an empty compute unit, any sequence of <= K
// reservations (symbolic SGPR/VGPR/LDS demand, 1-2 wavefronts) and releases.
// A granted reservation lies within capacity, does not overlap any resident
// work-group and respects the wavefront slots; a refused one changes nothing;
// the unit's free resources always equal capacity minus the residents' demand;
// after all releases everything is free.
func VerifReserveFree() {
	pool := NewCUResourcePool()
	pool.RegisterCU(zzvCU{})
	r := pool.GetCU(0).(*CUResourceImpl)
	cos := []*insts.KernelCodeObject{zzvCodeObject(true)}
	if verif.Param("cos", 1) == 2 && verif.Choice(2) == 1 {
		cos = append(cos, zzvCodeObject(false))
	}
	var res []*zzvResident
	K := verif.Param("ops", 4)
	check := func() {
		sg, lds := 0, 0
		vg := []int{0, 0}
		slots := []int{0, 0}
		for _, x := range res {
			sg += x.sg * len(x.locs)
			lds += x.lds
			for _, l := range x.locs {
				vg[l.SIMDID] += x.vg
				slots[l.SIMDID]++
			}
		}
		sm, lm := r.sregMask.(*resourceMaskImpl), r.ldsMask.(*resourceMaskImpl)
		acc := verif.And(sm.statusCount(allocStatusFree) == 4-sg, lm.statusCount(allocStatusFree) == 4-lds)
		for s := 0; s < 2; s++ {
			vm := r.vregMasks[s].(*resourceMaskImpl)
			acc = verif.And(acc, vm.statusCount(allocStatusFree) == 2-vg[s])
			verif.Assert(r.wfPoolFreeCount[s] == 2-slots[s], "free wavefront slots differ from capacity minus resident wavefronts")
			verif.Assert(slots[s] <= 2, "more wavefronts resident on a SIMD than it has slots")
		}
		verif.Assert(acc, "free registers/LDS differ from capacity minus resident demand")
		verif.Assert(len(r.reservedWGs) == len(res), "resident work-group bookkeeping differs")
	}
	for op := 0; op < K; op++ {
		acts := 2
		if len(res) > 0 {
			acts = 3
		}
		switch a := verif.Choice(acts); a {
		case 0, 1: // reserve a work-group of 1 or 2 wavefronts
			co := cos[0]
			if len(cos) == 2 && verif.Choice(2) == 1 {
				co = cos[1]
			}
			wg := &kernels.WorkGroup{CodeObject: co}
			for i := 0; i <= a; i++ {
				wg.Wavefronts = append(wg.Wavefronts, &kernels.Wavefront{CodeObject: co, WG: wg})
			}
			locs, ok := r.ReserveResourceForWG(wg)
			if ok {
				x := &zzvResident{wg: wg, locs: locs,
					sg: zzvUnits(int(co.WFSgprCount), 16), vg: zzvUnits(int(co.WIVgprCount), 4), lds: zzvUnits(int(co.GroupSegmentByteSize), 256)}
				verif.Assert(len(locs) == len(wg.Wavefronts), "a granted reservation does not place every wavefront")
				within, own, others := true, true, true
				for i, l := range locs {
					verif.Assert(l.Wavefront == wg.Wavefronts[i], "location does not name its wavefront")
					verif.Assert(l.SIMDID >= 0 && l.SIMDID < 2, "wavefront placed on a SIMD that does not exist")
					verif.Assert(l.SGPROffset%64 == 0 && l.SGPROffset >= 0 && l.VGPROffset%16 == 0 && l.VGPROffset >= 0 && l.LDSOffset%256 == 0 && l.LDSOffset >= 0, "misaligned or negative offset")
					verif.Assert(l.LDSOffset == locs[0].LDSOffset, "wavefronts of one work-group got different LDS")
					within = verif.And(within, verif.And(l.SGPROffset/64+x.sg <= 4, verif.And(l.VGPROffset/16+x.vg <= 2, l.LDSOffset/256+x.lds <= 4)))
					for j := 0; j < i; j++ {
						o := locs[j]
						own = verif.And(own, !zzvOverlap(o.SGPROffset/64, x.sg, l.SGPROffset/64, x.sg))
						if o.SIMDID == l.SIMDID {
							own = verif.And(own, !zzvOverlap(o.VGPROffset/16, x.vg, l.VGPROffset/16, x.vg))
						}
					}
					for _, y := range res {
						for _, o := range y.locs {
							others = verif.And(others, !zzvOverlap(o.SGPROffset/64, y.sg, l.SGPROffset/64, x.sg))
							if o.SIMDID == l.SIMDID {
								others = verif.And(others, !zzvOverlap(o.VGPROffset/16, y.vg, l.VGPROffset/16, x.vg))
							}
						}
						others = verif.And(others, !zzvOverlap(y.locs[0].LDSOffset/256, y.lds, l.LDSOffset/256, x.lds))
					}
				}
				verif.Assert(within, "registers or LDS granted beyond the unit's capacity")
				verif.Assert(own, "two wavefronts of a work-group share registers")
				verif.Assert(others, "registers or LDS of simultaneously resident work-groups overlap")
				res = append(res, x)
			} else {
				verif.Assert(locs == nil, "a refused reservation returned locations")
			}
		case 2:
			i := verif.Choice(len(res))
			r.FreeResourcesForWG(res[i].wg)
			res = append(res[:i:i], res[i+1:]...)
		}
		check()
	}
	for _, x := range res {
		r.FreeResourcesForWG(x.wg)
	}
	res = nil
	check()
	verif.Assert(r.ZzvAllFree(2), "resources were not all returned after every work-group was released")
}
