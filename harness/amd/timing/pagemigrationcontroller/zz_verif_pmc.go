package pagemigrationcontroller

// C19 harness: two page-migration controllers (requesting GPU A, owning GPU B)
// with the network and both memories played by the harness; page bases and
// contents are symbolic.

import (
	"github.com/sarchlab/akita/v4/mem/mem"
	"github.com/sarchlab/akita/v4/sim"
	verif "github.com/sarchlab/mgpusim/v4/zzverif"
	"github.com/sarchlab/mgpusim/v4/zzverif/simstub"
)

type zzvPMCEnv struct {
	a, b                 *PageMigrationController
	src, dst             uint64 // symbolic page bases (multiples of the transfer unit)
	nchunks              int
	chunks               [][]byte  // source page contents per 64-byte chunk
	written              []bool    // destination chunk written
	pendingAB, pendingBA []sim.Msg // network in flight
	memAQ, memBQ         []sim.Msg // memory replies in flight
	lifo                 bool
	nwrites              int
	completions          int
	history              [][]bool // written flags of every request so far (completion k refers to request k)
	memLifo              bool     // memories answer in reverse order
	stall                int      // 1: both memories accept a request only every third round (back-pressure on the local memory ports); 2: only the destination memory does (write requests pile up behind a failed send)
	tick                 int
}

func zzvNewPMC(name string) *PageMigrationController {
	p := NewPageMigrationController(name, simstub.NewEngine(), &mem.SinglePortMapper{Port: sim.RemotePort(name + ".Mem")}, nil)
	for _, port := range []sim.Port{p.remotePort, p.ctrlPort, p.localMemPort} {
		port.SetConnection(simstub.NewConn("c"))
	}
	return p
}

func (e *zzvPMCEnv) take(q *[]sim.Msg) sim.Msg {
	if len(*q) == 0 {
		return nil
	}
	var m sim.Msg
	if e.lifo {
		m = (*q)[len(*q)-1]
		*q = (*q)[:len(*q)-1]
	} else {
		m = (*q)[0]
		*q = (*q)[1:]
	}
	return m
}

// one round: tick both controllers, move every message one hop
func (e *zzvPMCEnv) round(drainCtrl bool) {
	e.a.Tick()
	e.b.Tick()
	// network A -> B and B -> A (1-entry ports: one message per round and direction)
	if m := e.a.remotePort.RetrieveOutgoing(); m != nil {
		verif.Assert(m.Meta().Dst == e.b.remotePort.AsRemote(), "PMC A sent a transfer message to the wrong controller")
		e.pendingAB = append(e.pendingAB, m)
	}
	if m := e.b.remotePort.RetrieveOutgoing(); m != nil {
		verif.Assert(m.Meta().Dst == e.a.remotePort.AsRemote(), "PMC B answered the wrong controller")
		e.pendingBA = append(e.pendingBA, m)
	}
	if len(e.pendingAB) > 0 {
		idx := 0
		if e.lifo {
			idx = len(e.pendingAB) - 1
		}
		if e.b.remotePort.Deliver(e.pendingAB[idx]) == nil {
			e.pendingAB = append(e.pendingAB[:idx:idx], e.pendingAB[idx+1:]...)
		}
	}
	if len(e.pendingBA) > 0 {
		idx := 0
		if e.lifo {
			idx = len(e.pendingBA) - 1
		}
		if e.a.remotePort.Deliver(e.pendingBA[idx]) == nil {
			e.pendingBA = append(e.pendingBA[:idx:idx], e.pendingBA[idx+1:]...)
		}
	}
	e.tick++
	accept := e.stall == 0 || e.tick%3 == 0
	acceptB := e.stall != 1 || e.tick%3 == 0
	// memory of GPU B: reads of the source page
	if !acceptB {
	} else if m := e.b.localMemPort.RetrieveOutgoing(); m != nil {
		r, ok := m.(*mem.ReadReq)
		verif.Assert(ok, "the owning GPU's memory received something other than a read (source page must not be modified)")
		if ok {
			verif.Assert(r.AccessByteSize == 64, "source read is not one transfer unit")
			inPage := false
			data := make([]byte, 64)
			for i := 0; i < e.nchunks; i++ {
				hit := r.Address == e.src+uint64(64*i)
				inPage = verif.Or(inPage, hit)
				for j := 0; j < 64; j++ {
					data[j] = verif.Ite8(hit, e.chunks[i][j], data[j])
				}
			}
			verif.Assert(inPage, "a read outside the source page (or not at a transfer-unit boundary of it)")
			e.memBQ = append(e.memBQ, mem.DataReadyRspBuilder{}.WithSrc("B.Mem").WithDst(e.b.localMemPort.AsRemote()).WithRspTo(r.ID).WithData(data).Build())
		}
	}
	if len(e.memBQ) > 0 {
		idx := 0
		if e.memLifo {
			idx = len(e.memBQ) - 1
		}
		if e.b.localMemPort.Deliver(e.memBQ[idx]) == nil {
			e.memBQ = append(e.memBQ[:idx:idx], e.memBQ[idx+1:]...)
		}
	}
	// memory of GPU A: writes of the destination page
	if !accept {
	} else if m := e.a.localMemPort.RetrieveOutgoing(); m != nil {
		w, ok := m.(*mem.WriteReq)
		verif.Assert(ok, "the destination GPU's memory received something other than a write")
		if ok {
			verif.Assert(len(w.Data) == 64 && w.DirtyMask == nil, "destination write is not one full transfer unit")
			inPage, dataOK, twice := false, true, false
			for i := 0; i < e.nchunks && len(w.Data) == 64; i++ {
				hit := w.Address == e.dst+uint64(64*i)
				inPage = verif.Or(inPage, hit)
				same := true
				for j := 0; j < 64; j++ {
					same = verif.And(same, w.Data[j] == e.chunks[i][j])
				}
				dataOK = verif.And(dataOK, verif.Implies(hit, same))
				twice = verif.Or(twice, verif.And(hit, e.written[i]))
				e.written[i] = verif.Or(e.written[i], hit)
			}
			verif.Assert(inPage, "a write outside the destination page (another page's contents would change)")
			verif.Assert(dataOK, "the data written to the destination page differs from the source page at that offset")
			verif.Assert(!twice, "a chunk of the destination page was written twice")
			e.nwrites++
			e.memAQ = append(e.memAQ, mem.WriteDoneRspBuilder{}.WithSrc("A.Mem").WithDst(e.a.localMemPort.AsRemote()).WithRspTo(w.ID).Build())
		}
	}
	if len(e.memAQ) > 0 {
		idx := 0
		if e.memLifo {
			idx = len(e.memAQ) - 1
		}
		if e.a.localMemPort.Deliver(e.memAQ[idx]) == nil {
			e.memAQ = append(e.memAQ[:idx:idx], e.memAQ[idx+1:]...)
		}
	}
	if drainCtrl {
		e.drainCtrl()
	}
}

func (e *zzvPMCEnv) drainCtrl() {
	for {
		m := e.a.ctrlPort.RetrieveOutgoing()
		if m == nil {
			return
		}
		_, ok := m.(*PageMigrationRspFromPMC)
		verif.Assert(ok, "unexpected message on the control port")
		verif.Assert(e.completions < len(e.history), "more completions than migration requests")
		if e.completions < len(e.history) {
			all := true
			for _, w := range e.history[e.completions] {
				all = verif.And(all, w)
			}
			verif.Assert(all, "migration completion was reported before the whole page had been written")
		}
		e.completions++
	}
}

// VerifPMC: up to nReq migrations of a page of 2 or 3 transfer units between
// symbolic page bases; network delivery FIFO or LIFO; the requester of the
// migration drains the completion port eagerly or late.
func VerifPMC() {
	e := &zzvPMCEnv{a: zzvNewPMC("A"), b: zzvNewPMC("B")}
	e.a.RemotePMCAddressTable = &mem.SinglePortMapper{Port: e.b.remotePort.AsRemote()}
	e.nchunks = 2 + verif.Choice(2)
	e.lifo = verif.Choice(2) == 1
	lateCtrl := verif.Choice(2) == 1
	e.memLifo = verif.Choice(2) == 1
	e.stall = verif.Choice(3)
	nReq := verif.Param("migrations", 2)
	total := 0
	for r := 0; r < nReq; r++ {
		e.src, e.dst = verif.U64(), verif.U64()
		verif.Assume(verif.And(verif.And(e.src%64 == 0, e.dst%64 == 0), verif.And(e.src < 1<<40, e.dst < 1<<40)))
		e.chunks = nil
		for i := 0; i < e.nchunks; i++ {
			e.chunks = append(e.chunks, verif.Bytes(64))
		}
		e.written = make([]bool, e.nchunks)
		e.history = append(e.history, e.written)
		req := PageMigrationReqToPMCBuilder{}.WithSrc("CP").WithDst(e.a.ctrlPort.AsRemote()).
			WithReadFrom(e.src).WithWriteTo(e.dst).WithPageSize(uint64(64 * e.nchunks)).
			WithPMCPortOfRemoteGPU(e.b.remotePort.AsRemote()).Build()
		delivered := false
		for i := 0; i < 30*e.nchunks+20; i++ {
			if !delivered && e.a.ctrlPort.Deliver(req) == nil {
				delivered = true
				total++
			}
			// a slow requester of the migration: in "late" mode the completion port
			// is only read every 12th round
			e.round(!lateCtrl || i%12 == 11)
			done := e.nwrites >= e.nchunks*(r+1)
			if delivered && done && len(e.memAQ) == 0 && i > 6 {
				// a few more rounds so that the completion can be produced
				e.round(!lateCtrl)
				e.round(!lateCtrl)
				break
			}
		}
		verif.Assert(delivered, "a migration request was never accepted")
		for _, w := range e.written {
			verif.Assert(w, "a chunk of the destination page was never written")
		}
		if lateCtrl && r < nReq-1 {
			continue // completion of this request is still sitting in the control port
		}
		e.drainCtrl()
	}
	for i := 0; i < 12; i++ {
		e.round(true)
	}
	verif.Observe(uint64(e.completions))
	verif.Observe(uint64(total))
	verif.Assert(e.completions == total, "the number of completion responses differs from the number of migration requests (lost or duplicated)")
}
