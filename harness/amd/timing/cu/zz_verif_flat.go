package cu

// C02 harness: FLAT loads and stores, timing path (defaultCoalescer ->
// memory -> ComputeUnit.handleVectorDataLoadReturn) against the emulator's
// ALU (emu.ALUImpl.runFlat*) on the same registers and the same memory.

import (
	"github.com/sarchlab/akita/v4/mem/mem"
	"github.com/sarchlab/akita/v4/mem/vm"
	"github.com/sarchlab/akita/v4/sim"
	"github.com/sarchlab/mgpusim/v4/amd/emu"
	"github.com/sarchlab/mgpusim/v4/amd/insts"
	"github.com/sarchlab/mgpusim/v4/amd/timing/wavefront"
	verif "github.com/sarchlab/mgpusim/v4/zzverif"
	"github.com/sarchlab/mgpusim/v4/zzverif/simstub"
)

// content of the (read-only part of the) memory: a function of the address
func zzvMemByte(a uint64, seed uint8) uint8 { return uint8(a) ^ uint8(a>>8) ^ uint8(a>>17) ^ seed }

type zzvWr struct {
	addr uint64
	val  uint8
}

// the emulator's storage: reads follow the content function, writes are logged
type zzvFlatMem struct {
	seed   uint8
	writes []zzvWr
}

func (m *zzvFlatMem) Read(pid vm.PID, a, n uint64) []byte {
	out := make([]byte, n)
	for i := range out {
		out[i] = zzvMemByte(a+uint64(i), m.seed)
	}
	return out
}

func (m *zzvFlatMem) Write(pid vm.PID, a uint64, d []byte) {
	for i, b := range d {
		m.writes = append(m.writes, zzvWr{a + uint64(i), b})
	}
}

// final value of address a under a write log (later writes win)
func zzvFinal(log []zzvWr, a uint64) (written bool, v uint8) {
	for _, w := range log {
		hit := w.addr == a
		written = verif.Or(written, hit)
		v = verif.Ite8(hit, w.val, v)
	}
	return
}

var zzvFlatOps = []struct {
	op    int
	name  string
	align uint64
	regs  int
	load  bool
}{
	{16, "flat_load_ubyte", 1, 1, true}, {17, "flat_load_sbyte", 1, 1, true}, {18, "flat_load_ushort", 2, 1, true},
	{20, "flat_load_dword", 4, 1, true}, {21, "flat_load_dwordx2", 4, 2, true}, {23, "flat_load_dwordx4", 4, 4, true},
	{28, "flat_store_dword", 4, 1, false}, {29, "flat_store_dwordx2", 4, 2, false}, {30, "flat_store_dwordx3", 4, 3, false}, {31, "flat_store_dwordx4", 4, 4, false},
}

// VerifFlatAgree: for every FLAT opcode the emulator implements, two lanes
// (one or both enabled) with symbolic naturally-aligned addresses and
// symbolic registers: after the timing path and the emulator's ALU have run
// the same instruction, loaded registers agree and stored memory agrees.
func VerifFlatAgree() {
	o := zzvFlatOps[verif.Choice(len(zzvFlatOps))]
	pairs := [][2]int{{0, 1}, {0, 63}, {5, 37}}
	pr := pairs[verif.Choice(len(pairs))]
	both := verif.Choice(2) == 1
	exec := uint64(1) << uint(pr[0])
	if both {
		exec |= uint64(1) << uint(pr[1])
	}
	// flat_<op> v[4..], v[2:3] / flat_store v[2:3], v[8..]
	w0 := uint32(0xDC000000) | uint32(o.op)<<18
	w1 := uint32(2)
	if o.load {
		w1 |= 4 << 24
	} else {
		w1 |= 8 << 8
	}
	buf := []byte{byte(w0), byte(w0 >> 8), byte(w0 >> 16), byte(w0 >> 24), byte(w1), byte(w1 >> 8), byte(w1 >> 16), byte(w1 >> 24)}
	inst, err := insts.NewDisassembler().Decode(buf)
	verif.Assert(err == nil, "harness: FLAT encoding does not decode")
	if err != nil {
		return
	}
	seed := verif.U8()

	// timing side
	cuObj := NewComputeUnit("CU", simstub.NewEngine())
	sreg := NewSimpleRegisterFile(zzvSFileBytes, 0)
	vreg := NewSimpleRegisterFile(zzvVFileBytes, 1024)
	cuObj.SRegFile = sreg
	cuObj.VRegFile = []RegisterFile{vreg}
	twf := wavefront.NewWavefront(nil)
	twf.RegAccessor = &CURegFileAccessor{CU: cuObj, WF: twf}
	twf.SetEXEC(exec)
	twf.SetDynamicInst(wavefront.NewInst(inst))
	// emulator side
	em := &zzvFlatMem{seed: seed}
	ewf := emu.ZzvNewWf(inst, 1)
	ewf.SetEXEC(exec)
	alu := emu.NewALU(em)

	for _, lane := range pr {
		// symbolic cache line, offset within the line from a boundary-rich list
		line := verif.U64()
		verif.Assume(verif.And(line >= 0x40, line < 1<<34))
		offs := map[uint64][]uint64{1: {0, 1, 3, 61, 63}, 2: {0, 2, 62}, 4: {0, 4, 56, 60}}[o.align]
		addr := line<<6 | offs[verif.Choice(len(offs))]
		for r, v := range []uint32{uint32(addr), uint32(addr >> 32)} {
			twf.WriteOperand(insts.NewVRegOperand(2+r, 2+r, 1), lane, uint64(v))
			ewf.WriteOperand(insts.NewVRegOperand(2+r, 2+r, 1), lane, uint64(v))
		}
		for r := 4; r < 12; r++ { // destination and data registers
			v := verif.U32()
			twf.WriteOperand(insts.NewVRegOperand(r, r, 1), lane, uint64(v))
			ewf.WriteOperand(insts.NewVRegOperand(r, r, 1), lane, uint64(v))
		}
	}

	alu.Run(ewf)

	tx := defaultCoalescer{log2CacheLineSize: 6}.generateMemTransactions(twf)
	var tlog []zzvWr
	for i, t := range tx {
		cuObj.InFlightVectorMemAccess = append(cuObj.InFlightVectorMemAccess, t)
		if t.Read != nil {
			if i != len(tx)-1 {
				t.Read.CanWaitForCoalesce = true
			}
			data := make([]byte, t.Read.AccessByteSize)
			for k := range data {
				data[k] = zzvMemByte(t.Read.Address+uint64(k), seed)
			}
			rsp := mem.DataReadyRspBuilder{}.WithRspTo(t.Read.ID).WithData(data).Build()
			cuObj.handleVectorDataLoadReturn(rsp)
		} else {
			for k, b := range t.Write.Data {
				if t.Write.DirtyMask[k] {
					tlog = append(tlog, zzvWr{t.Write.Address + uint64(k), b})
				}
			}
		}
	}

	lanes := pr[:1]
	if both {
		lanes = pr[:]
	}
	if o.load {
		same := true
		for _, lane := range lanes {
			for r := 4; r < 4+o.regs; r++ {
				a := twf.ReadOperand(insts.NewVRegOperand(r, r, 1), lane)
				b := ewf.ReadOperand(insts.NewVRegOperand(r, r, 1), lane)
				same = verif.And(same, uint32(a) == uint32(b))
			}
		}
		verif.Assert(same, "timing and emulation load different register values: "+o.name)
		verif.Observe(uint64(uint32(twf.ReadOperand(insts.NewVRegOperand(4, 4, 1), lanes[0]))))
		return
	}
	ok := true
	for _, w := range em.writes {
		wr, v := zzvFinal(tlog, w.addr)
		_, ev := zzvFinal(em.writes, w.addr)
		ok = verif.And(ok, verif.And(wr, v == ev))
	}
	for _, w := range tlog {
		wr, v := zzvFinal(em.writes, w.addr)
		_, tv := zzvFinal(tlog, w.addr)
		ok = verif.And(ok, verif.And(wr, v == tv))
	}
	verif.Assert(len(em.writes) > 0 && len(tlog) > 0, "a store wrote nothing")
	verif.Assert(ok, "timing and emulation store different memory contents: "+o.name)
	verif.Observe(uint64(tlog[0].val))
}

// VerifSmemAgree: s_load_dword{,x2,x4,x8} with a symbolic base (dword aligned)
// and an immediate or register offset: ScalarUnit.executeSMEMLoad + memory +
// ComputeUnit.handleScalarDataLoadReturn against emu.ALUImpl.runSLOADDWORD*.
func VerifSmemAgree() {
	op := verif.Choice(4) // dword, x2, x4, x8
	n := []int{1, 2, 4, 8}[op]
	imm := verif.Choice(2) == 1
	// s_load_dword* s[16..], s[2:3], offset  (imm: 20-bit immediate; else s6)
	w0 := uint32(0xC0000000) | uint32(op)<<18 | 16<<6 | 1 // sbase = s[2:3] -> 1
	var w1 uint32
	immOffs := []uint32{0, 4, 0x3C, 0x40, 0xFFC}
	if imm {
		w0 |= 1 << 17
		w1 = immOffs[verif.Choice(len(immOffs))]
	} else {
		w1 = 6
	}
	buf := []byte{byte(w0), byte(w0 >> 8), byte(w0 >> 16), byte(w0 >> 24), byte(w1), byte(w1 >> 8), byte(w1 >> 16), byte(w1 >> 24)}
	inst, err := insts.NewDisassembler().Decode(buf)
	verif.Assert(err == nil, "harness: SMEM encoding does not decode")
	if err != nil {
		return
	}
	seed := verif.U8()
	cuObj := NewComputeUnit("CU", simstub.NewEngine())
	comp := simstub.NewComp("SMem")
	cuObj.ScalarMem = sim.NewPort(comp, 4, 4, "SMem")
	sreg := NewSimpleRegisterFile(zzvSFileBytes, 0)
	cuObj.SRegFile = sreg
	cuObj.VRegFile = []RegisterFile{NewSimpleRegisterFile(zzvVFileBytes, 1024)}
	twf := wavefront.NewWavefront(nil)
	twf.RegAccessor = &CURegFileAccessor{CU: cuObj, WF: twf}
	twf.SetDynamicInst(wavefront.NewInst(inst))
	em := &zzvFlatMem{seed: seed}
	ewf := emu.ZzvNewWf(inst, 1)
	alu := emu.NewALU(em)

	line := verif.U64()
	verif.Assume(verif.And(line >= 0x40, line < 1<<34))
	base := line<<6 | []uint64{0, 4, 0x20, 0x38, 0x3C}[verif.Choice(5)]
	roff := uint32(4 * verif.Choice(20))
	wr := func(r int, v uint32) {
		twf.WriteOperand(insts.NewSRegOperand(r, r, 1), 0, uint64(v))
		ewf.WriteOperand(insts.NewSRegOperand(r, r, 1), 0, uint64(v))
	}
	wr(2, uint32(base))
	wr(3, uint32(base>>32))
	wr(6, roff)
	for r := 16; r < 24; r++ {
		wr(r, verif.U32())
	}

	alu.Run(ewf)

	su := NewScalarUnit(cuObj, alu)
	su.log2CachelineSize = 6
	su.toExec = twf
	su.executeSMEMInst()
	for _, req := range su.readBuf {
		data := make([]byte, req.AccessByteSize)
		for k := range data {
			data[k] = zzvMemByte(req.Address+uint64(k), seed)
		}
		cuObj.handleScalarDataLoadReturn(mem.DataReadyRspBuilder{}.WithRspTo(req.ID).WithData(data).Build())
	}
	same := true
	for r := 16; r < 16+n; r++ {
		a := twf.ReadOperand(insts.NewSRegOperand(r, r, 1), 0)
		b := ewf.ReadOperand(insts.NewSRegOperand(r, r, 1), 0)
		same = verif.And(same, uint32(a) == uint32(b))
	}
	verif.Assert(same, "timing and emulation load different scalar register values")
	verif.Assert(twf.OutstandingScalarMemAccess == 0, "outstanding scalar access counter not back to zero after the last reply")
	verif.Assert(len(cuObj.InFlightScalarMemAccess) == 0, "scalar accesses still in flight after all replies")
	verif.Observe(uint64(uint32(twf.ReadOperand(insts.NewSRegOperand(16, 16, 1), 0))))
}
