package cu

// C14 harness: a complete timing ComputeUnit (builder defaults, real decoder,
// scheduler, arbiters, scalar / vector-memory / branch / SIMD units, register
// files) driven tick by tick. The harness plays the instruction memory, the
// scalar and vector memories (reply latency is a choice) and the dispatcher.
// Programs are real GCN3 encodings; the s_waitcnt immediate is symbolic.

import (
	"github.com/sarchlab/akita/v4/mem/mem"
	"github.com/sarchlab/akita/v4/sim"
	"github.com/sarchlab/mgpusim/v4/amd/insts"
	"github.com/sarchlab/mgpusim/v4/amd/kernels"
	"github.com/sarchlab/mgpusim/v4/amd/protocol"
	"github.com/sarchlab/mgpusim/v4/amd/timing/wavefront"
	verif "github.com/sarchlab/mgpusim/v4/zzverif"
	"github.com/sarchlab/mgpusim/v4/zzverif/simstub"
)

const (
	zzvEndpgm  = uint32(0xBF810000)
	zzvBarrier = uint32(0xBF8A0000)
	zzvNop     = uint32(0xBF800000)
	zzvWaitcnt = uint32(0xBF8C0000) // | simm16
	// flat_load_dword v1, v[2:3] / v9, v[10:11]; flat_store_dword v[6:7], v1 / v[12:13], v9 / v[14:15], v8
	zzvFlatLoad0  = uint32(0xDC500000)
	zzvFlatStore0 = uint32(0xDC700000)
	zzvSLoad0     = uint32(0xC0020100) // s_load_dword s4, s[0:1], 0x0
	zzvVMovV8S4   = uint32(0x7E100204) // v_mov_b32 v8, s4

	zzvIBase = uint64(0x1000)
	zzvIStep = uint64(0x100)
)

func zzvFlatLoadW1(vdst, addr int) uint32        { return uint32(vdst)<<24 | uint32(addr) }
func zzvFlatStoreW1(addr, data int) uint32       { return uint32(data)<<8 | uint32(addr) }
func zzvMemWord(addr uint64) uint32              { return 0x5A000000 | uint32(addr&0xFFFFFF) }
func zzvPut32(b []byte, off uint64, v uint32)    { b[off], b[off+1], b[off+2], b[off+3] = byte(v), byte(v>>8), byte(v>>16), byte(v>>24) }
func zzvGet32(b []byte, off uint64) uint32       { return uint32(b[off]) | uint32(b[off+1])<<8 | uint32(b[off+2])<<16 | uint32(b[off+3])<<24 }

// per-wavefront bookkeeping of the harness
type zzvWf struct {
	id       int
	wg       int
	wf       *wavefront.Wavefront
	entry    uint64
	barriers []uint64 // addresses of the s_barrier instructions, in program order
	endAt    uint64   // address of s_endpgm
	// memory map of this wavefront
	aA, aB, aC, aS uint64
	// what the s_waitcnt guarantees
	hasWait            bool
	vm, lgkm           uint16
	nFlat, nSmem       int // loads issued before the wait
	pendingReplies     int // requests seen on the memory ports and not answered yet
	storesSeen         int
	completedSeen      bool
	stale              [3]bool
	next               map[uint64]uint64 // instruction address -> address of the following instruction
	lastPC             uint64
	lateV              int  // vector loads: 0 none late, 1 second late, 2 both late
	lateS              bool // scalar load late
}

type zzvPending struct {
	msg   sim.Msg
	w     *zzvWf
	late  bool
	vec   bool
}

type zzvSched struct {
	cu      *ComputeUnit
	imem    []byte
	memw    map[uint64]uint32
	wfs     []*zzvWf
	pend    []*zzvPending
	wgDone  []int
	wgReq   []*protocol.MapWGReq
	lateAll bool
	cur     *zzvWf
	trace   []uint64
}

func (e *zzvSched) word(addr uint64) uint32 {
	if v, ok := e.memw[addr]; ok {
		return v
	}
	return zzvMemWord(addr)
}

func (e *zzvSched) owner(addr uint64) *zzvWf {
	for _, w := range e.wfs {
		if addr >= w.aA && addr < w.aA+0x100 || addr >= w.aS && addr < w.aS+0x40 {
			return w
		}
	}
	return nil
}

// emit appends instruction words to a wavefront's program
func (e *zzvSched) emit(pc *uint64, words ...uint32) {
	start := *pc
	for _, w := range words {
		zzvPut32(e.imem, *pc-zzvIBase, w)
		*pc += 4
	}
	e.cur.next[start] = *pc
}

// program templates
func (e *zzvSched) build(w *zzvWf, tmpl int, simm uint16, nops int) {
	pc := w.entry
	e.cur, w.next, w.lastPC = w, map[uint64]uint64{}, w.entry
	loads := func() {
		e.emit(&pc, zzvFlatLoad0, zzvFlatLoadW1(1, 2))   // v1 <- [A]
		e.emit(&pc, zzvFlatLoad0, zzvFlatLoadW1(9, 10))  // v9 <- [B]
		e.emit(&pc, zzvSLoad0, 0)                        // s4 <- [S]
		w.nFlat, w.nSmem = 2, 1
	}
	wait := func() {
		e.emit(&pc, zzvWaitcnt|uint32(simm))
		w.hasWait, w.vm, w.lgkm = true, simm&0xF, (simm>>8)&0xF
	}
	uses := func() {
		e.emit(&pc, zzvFlatStore0, zzvFlatStoreW1(6, 1))   // [C]   <- v1
		e.emit(&pc, zzvFlatStore0, zzvFlatStoreW1(12, 9))  // [C+4] <- v9
		e.emit(&pc, zzvVMovV8S4)
		e.emit(&pc, zzvFlatStore0, zzvFlatStoreW1(14, 8))  // [C+8] <- v8 (= s4)
	}
	barrier := func() {
		w.barriers = append(w.barriers, pc)
		e.emit(&pc, zzvBarrier)
	}
	for i := 0; i < nops; i++ {
		e.emit(&pc, zzvNop)
	}
	switch tmpl {
	case 0: // early exit
	case 1:
		barrier()
		e.emit(&pc, zzvNop)
	case 2:
		loads()
		wait()
		uses()
		barrier()
		e.emit(&pc, zzvNop)
	case 3:
		loads()
		barrier()
		wait()
		uses()
	case 4:
		barrier()
		e.emit(&pc, zzvNop)
		barrier()
		e.emit(&pc, zzvNop)
	case 5: // loads and stores, no wait before the end
		loads()
		wait()
		uses()
	}
	w.endAt = pc
	e.emit(&pc, zzvEndpgm)
}

func (e *zzvSched) writeV(w *zzvWf, reg int, v uint64) {
	e.cu.VRegFile[w.wf.SIMDID].Write(RegisterAccess{Reg: insts.VReg(reg), RegCount: 2, LaneID: 0,
		WaveOffset: w.wf.VRegOffset, Data: insts.Uint64ToBytes(v)})
}

// barrier epoch of a wavefront: how many of its barriers its PC has passed
func (w *zzvWf) passed() int {
	n := 0
	for _, b := range w.barriers {
		if w.wf.PC() > b {
			n++
		}
	}
	return n
}

func (w *zzvWf) reached(k int) bool { // has reached its k-th barrier (0-based)
	if w.wf.State == wavefront.WfCompleted {
		return true
	}
	if k >= len(w.barriers) {
		return w.wf.PC() >= w.endAt // no such barrier: it must be about to end
	}
	b := w.barriers[k]
	return w.wf.PC() > b || (w.wf.PC() == b && w.wf.State == wavefront.WfAtBarrier)
}

func (e *zzvSched) checkBarriers() {
	for _, a := range e.wfs {
		if a.wf == nil {
			continue
		}
		if pc := a.wf.PC(); pc != a.lastPC {
			verif.Assert(pc == a.next[a.lastPC], "a wavefront skipped or repeated an instruction")
			a.lastPC = pc
		}
		n := a.passed()
		if n == 0 {
			continue
		}
		for _, b := range e.wfs {
			if b == a || b.wg != a.wg || b.wf == nil {
				continue
			}
			verif.Assert(b.reached(n-1), "a wavefront ran past a barrier that another unfinished wavefront of its work-group had not reached")
		}
	}
}

func (e *zzvSched) serve() {
	// instruction memory: answers at once
	for {
		m := e.cu.ToInstMem.RetrieveOutgoing()
		if m == nil {
			break
		}
		r := m.(*mem.ReadReq)
		data := make([]byte, 64)
		if r.Address >= zzvIBase && r.Address+64 <= zzvIBase+uint64(len(e.imem)) {
			copy(data, e.imem[r.Address-zzvIBase:])
		}
		rsp := mem.DataReadyRspBuilder{}.WithSrc(r.Dst).WithDst(r.Src).WithRspTo(r.ID).WithData(data).Build()
		verif.Assert(e.cu.ToInstMem.Deliver(rsp) == nil, "harness: instruction reply refused")
	}
	for {
		m := e.cu.ToScalarMem.RetrieveOutgoing()
		if m == nil {
			break
		}
		r := m.(*mem.ReadReq)
		w := e.owner(r.Address)
		verif.Assert(w != nil, "scalar access to an address no wavefront owns")
		if w == nil {
			continue
		}
		verif.Assert(!w.completedSeen && w.wf.State != wavefront.WfCompleted, "memory request from a wavefront that has ended")
		w.pendingReplies++
		e.pend = append(e.pend, &zzvPending{msg: m, w: w, late: e.lateAll || w.lateS})
	}
	for {
		m := e.cu.ToVectorMem.RetrieveOutgoing()
		if m == nil {
			break
		}
		var addr uint64
		var r0 *mem.ReadReq
		switch r := m.(type) {
		case *mem.ReadReq:
			addr, r0 = r.Address, r
		case *mem.WriteReq:
			addr = r.Address
		}
		w := e.owner(addr)
		verif.Assert(w != nil, "vector access to an address no wavefront owns")
		if w == nil {
			continue
		}
		verif.Assert(!w.completedSeen && w.wf.State != wavefront.WfCompleted, "memory request from a wavefront that has ended")
		w.pendingReplies++
		p := &zzvPending{msg: m, w: w, vec: true}
		if wr, ok := m.(*mem.WriteReq); ok {
			e.checkStore(w, wr)
		} else {
			// replies return in order, so a late first load delays the second
			p.late = e.lateAll || w.lateV == 2 || (w.lateV == 1 && r0.Address == w.aB)
		}
		e.pend = append(e.pend, p)
	}
	for {
		m := e.cu.ToACE.RetrieveOutgoing()
		if m == nil {
			break
		}
		c, ok := m.(*protocol.WGCompletionMsg)
		verif.Assert(ok, "unexpected message to the dispatcher")
		if !ok {
			continue
		}
		for g, req := range e.wgReq {
			if len(c.RspTo) == 1 && c.RspTo[0] == req.ID {
				e.wgDone[g]++
				verif.Assert(e.wgDone[g] == 1, "work-group completion reported more than once")
				for _, w := range e.wfs {
					if w.wg == g {
						verif.Assert(w.wf.State == wavefront.WfCompleted, "work-group completion reported before its last wavefront ended")
						verif.Assert(w.pendingReplies == 0, "work-group completion reported while memory operations were outstanding")
						w.completedSeen = true
					}
				}
			}
		}
	}
}

func (e *zzvSched) checkStore(w *zzvWf, wr *mem.WriteReq) {
	for i := 0; i < 3; i++ {
		off := w.aC + uint64(4*i) - wr.Address
		if wr.Address > w.aC || off+4 > uint64(len(wr.Data)) || !wr.DirtyMask[off] {
			continue
		}
		w.storesSeen++
		got := zzvGet32(wr.Data, off)
		src := []uint64{w.aA, w.aB, w.aS}[i]
		fresh := got == e.word(src)
		verif.Assert(fresh || got == 0, "a store wrote a value that is neither the loaded nor the initial register value")
		if !fresh {
			w.stale[i] = true
		}
		if !w.hasWait {
			continue
		}
		// what the wait guarantees (FLAT counts on both counters; lgkmcnt
		// returns out of order across types, so only 0 is a guarantee)
		must := w.lgkm == 0
		switch i {
		case 0:
			must = must || w.vm <= 1
		case 1:
			must = must || w.vm == 0
		}
		if must {
			verif.Assert(fresh, "an instruction after s_waitcnt used a register whose load the wait should have covered")
		}
	}
}

// deliver answers the oldest pending request of the chosen kind
func (e *zzvSched) deliver(lateToo bool) bool {
	for i, p := range e.pend {
		if p.late && !lateToo {
			continue
		}
		// keep per-wavefront order: an earlier request of the same wavefront
		// and memory goes first
		blocked := false
		for _, q := range e.pend[:i] {
			if q.w == p.w && q.vec == p.vec {
				blocked = true
			}
		}
		if blocked {
			continue
		}
		var rsp sim.Msg
		port := e.cu.ToScalarMem
		if p.vec {
			port = e.cu.ToVectorMem
		}
		switch r := p.msg.(type) {
		case *mem.ReadReq:
			data := make([]byte, r.AccessByteSize)
			for o := uint64(0); o+4 <= r.AccessByteSize; o += 4 {
				zzvPut32(data, o, e.word(r.Address+o))
			}
			rsp = mem.DataReadyRspBuilder{}.WithSrc(r.Dst).WithDst(r.Src).WithRspTo(r.ID).WithData(data).Build()
		case *mem.WriteReq:
			for o := uint64(0); o+4 <= uint64(len(r.Data)); o += 4 {
				if r.DirtyMask[o] {
					e.memw[r.Address+o] = zzvGet32(r.Data, o)
				}
			}
			rsp = mem.WriteDoneRspBuilder{}.WithSrc(r.Dst).WithDst(r.Src).WithRspTo(r.ID).Build()
		}
		if port.Deliver(rsp) != nil {
			return false
		}
		p.w.pendingReplies--
		e.pend = append(e.pend[:i:i], e.pend[i+1:]...)
		return true
	}
	return false
}

// VerifSchedule: barriers, wait counts and termination on the real compute
// unit. 1-2 work-groups of 1-3 wavefronts; per wavefront a program template
// (early exit / barrier / load-wait-use-barrier / load-barrier-wait-use / two
// barriers / load-wait-use-end) with a symbolic s_waitcnt immediate; each
// load's reply is early or as late as possible; the scheduler's barrier
// buffer holds 16 or 1 entries.
func VerifSchedule() { zzvScheduleRun(&zzvDraw{}) }

// zzvDraw: the environment decisions of one run; recorded on the first run so
// that a second run (C05: same scenario under permuted map orders) can repeat
// them.
type zzvDraw struct {
	vals   []uint64
	replay bool
	pos    int
}

func (d *zzvDraw) next(fresh func() uint64) uint64 {
	if d.replay {
		v := d.vals[d.pos]
		d.pos++
		return v
	}
	v := fresh()
	d.vals = append(d.vals, v)
	return v
}
func (d *zzvDraw) Choice(n int) int { return int(d.next(func() uint64 { return uint64(verif.Choice(n)) })) }
func (d *zzvDraw) U16() uint16      { return uint16(d.next(func() uint64 { return uint64(verif.U16()) })) }

func zzvScheduleRun(dr *zzvDraw) []uint64 {
	e := &zzvSched{memw: map[uint64]uint32{}}
	oneSIMD := verif.Param("oneSIMD", 0) == 1
	engine := simstub.NewEngine()
	comp := simstub.NewComp("Mem")
	imemPort := sim.NewPort(comp, 4, 4, "IMem")
	smemPort := sim.NewPort(comp, 4, 4, "SMem")
	b := MakeBuilder().WithEngine(engine).WithFreq(1 * sim.GHz).
		WithInstMem(imemPort).WithScalarMem(smemPort).
		WithVectorMemModules(&mem.SinglePortMapper{Port: "VMem"}).
		WithVecMemInstPipelineStages(2).WithVecMemTransPipelineStages(2)
	cu := b.Build("CU")
	e.cu = cu
	for _, p := range []sim.Port{cu.ToACE, cu.ToInstMem, cu.ToScalarMem, cu.ToVectorMem, cu.ToCP} {
		p.SetConnection(simstub.NewConn("c"))
	}
	// the barrier buffer is shared by all work-groups of the unit: 16 free
	// entries, one, or none (filled by other work-groups)
	cu.Scheduler.(*SchedulerImpl).barrierBufferSize = []int{16, 1, 0}[dr.Choice(3)]
	e.lateAll = verif.Param("lateonly", 0) == 1

	nWG := 1 + dr.Choice(verif.Param("maxWG", 2))
	maxWf := verif.Param("maxWf", 3)
	ntmpl := verif.Param("templates", 6)
	maxLoad := verif.Param("loadwfs", 1)
	e.imem = make([]byte, int(zzvIStep)*nWG*maxWf)
	co := &insts.KernelCodeObject{KernelCodeObjectMeta: &insts.KernelCodeObjectMeta{WFSgprCount: 16, WIVgprCount: 16}}
	for g := 0; g < nWG; g++ {
		nWf := 1 + dr.Choice(maxWf)
		loading := 0
		pkt := &kernels.HsaKernelDispatchPacket{WorkgroupSizeX: uint16(64 * nWf), WorkgroupSizeY: 1, WorkgroupSizeZ: 1,
			GridSizeX: uint32(64 * nWf), GridSizeY: 1, GridSizeZ: 1, KernelObject: zzvIBase}
		gb := kernels.NewGridBuilder()
		gb.SetKernel(kernels.KernelLaunchInfo{CodeObject: co, Packet: pkt})
		raw := gb.NextWG()
		rb := protocol.MapWGReqBuilder{}.WithSrc("ACE").WithDst(cu.ToACE.AsRemote()).WithPID(1).WithWG(raw)
		for i := range raw.Wavefronts {
			k := len(e.wfs)
			rb = rb.AddWf(protocol.WfDispatchLocation{Wavefront: raw.Wavefronts[i], SIMDID: zzvSIMD(k, oneSIMD), VGPROffset: 64 * k, SGPROffset: 64 * k})
			w := &zzvWf{id: k, wg: g, entry: zzvIBase + zzvIStep*uint64(k)}
			w.aA = 0x10000 + 0x100*uint64(k)
			w.aB, w.aC, w.aS = w.aA+0x40, w.aA+0x80, 0x20000+0x40*uint64(k)
			tmpl := 0
			if loading >= maxLoad { // only maxLoad wavefronts of a work-group use memory
				tmpl = []int{0, 1, 4}[dr.Choice(3)]
			} else {
				tmpl = dr.Choice(ntmpl)
			}
			simm := uint16(0)
			if tmpl == 2 || tmpl == 3 || tmpl == 5 {
				loading++
				simm = dr.U16()
				w.lateV, w.lateS = dr.Choice(3), dr.Choice(2) == 1
			}
			e.build(w, tmpl, simm, dr.Choice(2))
			e.wfs = append(e.wfs, w)
		}
		req := rb.Build()
		e.wgReq = append(e.wgReq, req)
		e.wgDone = append(e.wgDone, 0)
		verif.Assert(cu.ToACE.Deliver(req) == nil, "harness: map request refused")
		cu.Tick() // the compute unit takes the work-group
		n := 0
		for _, pool := range cu.WfPools {
			for _, wf := range pool.wfs {
				for _, w := range e.wfs {
					if w.wg == g && wf.Wavefront == raw.Wavefronts[w.id-(len(e.wfs)-len(raw.Wavefronts))] {
						w.wf = wf
						n++
						// each wavefront starts at its own program, one active lane
						wf.SetPC(w.entry)
						wf.SetEXEC(1)
						e.writeV(w, 2, w.aA)
						e.writeV(w, 10, w.aB)
						e.writeV(w, 6, w.aC)
						e.writeV(w, 12, w.aC+4)
						e.writeV(w, 14, w.aC+8)
						cu.SRegFile.Write(RegisterAccess{Reg: insts.SReg(0), RegCount: 2, WaveOffset: wf.SRegOffset, Data: insts.Uint64ToBytes(w.aS)})
					}
				}
			}
		}
		verif.Assert(n == len(raw.Wavefronts), "harness: wavefronts not found in the pools")
	}

	T := verif.Param("ticks", 400)
	idle := 0
	done := false
	for t := 0; t < T && !done; t++ {
		progress := cu.Tick()
		for _, w := range e.wfs {
			e.trace = append(e.trace, w.wf.PC(), uint64(w.wf.State))
		}
		e.checkBarriers()
		e.serve()
		if e.deliver(false) {
			progress = true
		}
		if progress {
			idle = 0
		} else {
			idle++
		}
		if idle >= 6 { // nothing moves: now the late replies arrive, one at a time
			if e.deliver(true) {
				idle = 0
			}
		}
		done = true
		for _, n := range e.wgDone {
			if n == 0 {
				done = false
			}
		}
	}
	verif.Assert(done, "a work-group never completed although every memory reply was delivered")
	for i := 0; i < 8; i++ { // nothing further may be reported
		cu.Tick()
		e.serve()
	}
	for _, w := range e.wfs {
		verif.Assert(w.wf.State == wavefront.WfCompleted, "a wavefront did not end")
		verif.Assert(w.pendingReplies == 0, "replies outstanding at the end")
		want := 0
		if w.hasWait {
			want = 3
		}
		verif.Assert(w.storesSeen == want, "a wavefront's stores were not all issued exactly once")
	}
	return e.trace
}

func zzvSIMD(k int, one bool) int {
	if one {
		return 0
	}
	return k % 4
}

// VerifScheduleMapOrder (C05): the same compute-unit scenario (same programs,
// same reply lateness) run twice, the second time with every map range of the
// simulator iterating in a chosen permuted order: the per-tick trace of every
// wavefront's PC and state must be identical.
func VerifScheduleMapOrder() {
	dr := &zzvDraw{}
	a := zzvScheduleRun(dr)
	dr.replay, dr.pos = true, 0
	verif.MapOrder(true)
	b := zzvScheduleRun(dr)
	verif.MapOrder(false)
	same := len(a) == len(b)
	if same {
		for i := range a {
			if a[i] != b[i] {
				same = false
			}
		}
	}
	verif.Assert(same, "compute unit: the instruction issue trace depends on map iteration order")
}
