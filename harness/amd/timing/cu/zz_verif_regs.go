package cu

// C07 harness, timing-mode register store: wavefront.Wavefront operand
// access -> CURegFileAccessor -> SimpleRegisterFile, for a wavefront placed at
// arbitrary register-file offsets on a SIMD next to other wavefronts, against
// the shared flat cell model (zzverif/regmodel).

import (
	"github.com/sarchlab/mgpusim/v4/amd/timing/wavefront"
	verif "github.com/sarchlab/mgpusim/v4/zzverif"
	rm "github.com/sarchlab/mgpusim/v4/zzverif/regmodel"
	"github.com/sarchlab/mgpusim/v4/zzverif/abimodel"
	"github.com/sarchlab/mgpusim/v4/amd/protocol"
)

const (
	zzvSFileBytes = 3200 * 4
	zzvVFileBytes = 16384 * 4
)

// placements of the wavefront under test: (SIMD, SRegOffset, VRegOffset)
var zzvPlace = [][3]int{{0, 0, 0}, {1, 408, 48}, {0, 4 * 1600, 400}, {1, zzvSFileBytes - 408, 1000}, {0, 12, 4}}

type zzvTiming struct {
	cu         *ComputeUnit
	wf         *wavefront.Wavefront
	sreg       *SimpleRegisterFile
	vreg       [2]*SimpleRegisterFile
	shadowS    []byte // expected SGPR storage outside the wavefront's window
	sOff, vOff int
	wLo, wHi   int // VGPR window of the operand
	simd       int
}

// zzvTState places a wavefront at chosen offsets; its own registers are
// symbolic (whole SGPR window; the VGPR cells named by the operand), everything
// else in the three files holds symbolic-free sentinels, so that any stray
// write into a co-resident wavefront's registers, another lane or the other
// SIMD's file is visible.
func zzvTState(kind, idx, w, lane int) (*zzvTiming, *rm.Cells, bool) {
	t := &zzvTiming{}
	t.cu = &ComputeUnit{}
	t.sreg = NewSimpleRegisterFile(zzvSFileBytes, 0)
	t.vreg[0] = NewSimpleRegisterFile(zzvVFileBytes, 1024)
	t.vreg[1] = NewSimpleRegisterFile(zzvVFileBytes, 1024)
	t.cu.SRegFile = t.sreg
	t.cu.VRegFile = []RegisterFile{t.vreg[0], t.vreg[1]}
	t.wf = wavefront.NewWavefront(nil)
	pl := zzvPlace[verif.Choice(len(zzvPlace))]
	t.simd, t.sOff, t.vOff = pl[0], pl[1], pl[2]
	t.wf.SIMDID = t.simd
	t.wf.SRegOffset = t.sOff
	t.wf.VRegOffset = t.vOff
	t.wf.RegAccessor = &CURegFileAccessor{CU: t.cu, WF: t.wf}
	if kind == rm.VGPR && t.vOff+4*(idx+w) > 1024 {
		return nil, nil, false // the wavefront's VGPR window must fit its lane row
	}
	m := &rm.Cells{}
	sb := verif.Bytes(408)
	copy(t.sreg.storage[t.sOff:t.sOff+408], sb)
	for i := 0; i < 102; i++ {
		m.Sgpr[i] = rm.LE32(sb[4*i:])
	}
	if kind == rm.VGPR {
		t.wLo, t.wHi = idx, idx+w
		for r := idx; r < idx+w; r++ {
			off := lane*1024 + t.vOff + r*4
			vb := verif.Bytes(4)
			copy(t.vreg[t.simd].storage[off:off+4], vb)
			m.Vgpr[r] = rm.LE32(vb)
		}
	}
	t.wf.SetVCC(verif.U64())
	t.wf.SetEXEC(verif.U64())
	t.wf.M0 = verif.U32()
	t.wf.SetSCC(verif.U8())
	m.VccLo, m.VccHi = uint32(t.wf.VCC()), uint32(t.wf.VCC()>>32)
	m.ExecLo, m.ExecHi = uint32(t.wf.EXEC()), uint32(t.wf.EXEC()>>32)
	m.M0, m.Scc = t.wf.M0, t.wf.SCC()
	return t, m, true
}

func (t *zzvTiming) check(m *rm.Cells, lane int, what string) {
	s := t.sreg.storage
	for off := 0; off < zzvSFileBytes; off += 4 {
		v := uint32(s[off]) | uint32(s[off+1])<<8 | uint32(s[off+2])<<16 | uint32(s[off+3])<<24
		if off >= t.sOff && off < t.sOff+408 {
			verif.Assert(v == m.Sgpr[(off-t.sOff)/4], "SGPR file differs from the cell model after "+what)
		} else {
			verif.Assert(v == 0, "another wavefront's SGPRs changed after "+what)
		}
	}
	for f := 0; f < 2; f++ {
		st := t.vreg[f].storage
		for off := 0; off < zzvVFileBytes; off += 4 {
			v := uint32(st[off]) | uint32(st[off+1])<<8 | uint32(st[off+2])<<16 | uint32(st[off+3])<<24
			l, in := off/1024, off%1024
			if f == t.simd && l == lane && in >= t.vOff+4*t.wLo && in < t.vOff+4*t.wHi {
				verif.Assert(v == m.Vgpr[(in-t.vOff)/4], "VGPR file differs from the cell model after "+what)
			} else {
				verif.Assert(v == 0, "another lane's / wavefront's / SIMD's VGPRs changed after "+what)
			}
		}
	}
	verif.Assert(t.wf.VCC() == uint64(m.VccLo)|uint64(m.VccHi)<<32, "VCC differs from the cell model after "+what)
	verif.Assert(t.wf.EXEC() == uint64(m.ExecLo)|uint64(m.ExecHi)<<32, "EXEC differs from the cell model after "+what)
	verif.Assert(t.wf.M0 == m.M0, "M0 differs from the cell model after "+what)
	verif.Assert(t.wf.SCC() == m.Scc, "SCC differs from the cell model after "+what)
}

// VerifTimingRegWrite: see emu.VerifRegWrite; same model, timing store.
func VerifTimingRegWrite() {
	full := verif.Param("full", 0) == 1
	k, idx, cnt, ok := rm.Pick(full, 16)
	if !ok {
		return
	}
	lane := rm.PickLane(k, full)
	t, m, ok := zzvTState(k, idx, rm.Width(k, cnt), lane)
	if !ok {
		return
	}
	rm.DoWrite(t.wf, m, k, idx, cnt, lane)
	t.check(m, lane, "a write to "+rm.Tag(k, cnt))
}

// VerifTimingRegRead: see emu.VerifRegRead; same model, timing store.
func VerifTimingRegRead() {
	full := verif.Param("full", 0) == 1
	k, idx, cnt, ok := rm.Pick(full, 8)
	if !ok {
		return
	}
	lane := rm.PickLane(k, full)
	t, m, ok := zzvTState(k, idx, rm.Width(k, cnt), lane)
	if !ok {
		return
	}
	rm.DoRead(t.wf, m, k, idx, cnt, lane)
	t.check(m, lane, "a read of "+rm.Tag(k, cnt))
}

// VerifTimingInitRegs (C08/C02): timing-mode register initialisation at
// dispatch (WfDispatcherImpl.initWfInfo path) against the same ABI model.
func VerifTimingInitRegs() {
	c := abimodel.NewCase(verif.Param("queuePtr", 0) == 1)
	cuObj := &ComputeUnit{}
	sreg := NewSimpleRegisterFile(zzvSFileBytes, 0)
	vreg := NewSimpleRegisterFile(zzvVFileBytes, 1024)
	cuObj.SRegFile = sreg
	cuObj.VRegFile = []RegisterFile{vreg}
	wf := wavefront.NewWavefront(c.WF)
	wf.WG = wavefront.NewWorkGroup(c.WG, nil)
	d := &WfDispatcherImpl{cu: cuObj}
	sOff, vOff := 408, 48
	d.setWfInfo(wf, protocol.WfDispatchLocation{SIMDID: 0, SGPROffset: sOff, VGPROffset: vOff})
	d.initRegisters(wf)
	c.Check(wf.PC(), wf.EXEC(),
		func(i int) uint32 { return rm.LE32(sreg.storage[sOff+4*i:]) },
		func(lane, i int) uint32 { return rm.LE32(vreg.storage[lane*1024+vOff+4*i:]) }, "timing")
}
