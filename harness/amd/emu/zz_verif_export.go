package emu

import (
	"github.com/sarchlab/akita/v4/mem/vm"
	"github.com/sarchlab/mgpusim/v4/amd/insts"
)

// ZzvNewWf (harness helper for differential checks written in other
// packages): an emulation wavefront about to execute inst.
func ZzvNewWf(inst *insts.Inst, pid vm.PID) *Wavefront {
	wf := NewWavefront(nil)
	wf.inst = inst
	wf.pid = pid
	return wf
}
