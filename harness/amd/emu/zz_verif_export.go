package emu

import (
	"github.com/sarchlab/akita/v4/mem/vm"
	"github.com/sarchlab/mgpusim/v4/amd/insts"
	"github.com/sarchlab/mgpusim/v4/amd/kernels"
	"github.com/sarchlab/mgpusim/v4/amd/protocol"
	"github.com/sarchlab/mgpusim/v4/zzverif/simstub"
)

// ZzvNewWf (harness helper for differential checks written in other
// packages): an emulation wavefront about to execute inst.
func ZzvNewWf(inst *insts.Inst, pid vm.PID) *Wavefront {
	wf := NewWavefront(nil)
	wf.inst = inst
	wf.pid = pid
	return wf
}

// ---- C01 slice: one work-group of a real kernel on the emulator ----

// ZzvMem is a flat little memory (code, packet, kernarg, buffers).
type ZzvMem struct{ B []byte }

func (m *ZzvMem) Read(pid vm.PID, a, n uint64) []byte {
	out := make([]byte, n)
	if a < uint64(len(m.B)) {
		copy(out, m.B[a:])
	}
	return out
}
func (m *ZzvMem) Write(pid vm.PID, a uint64, d []byte) { copy(m.B[a:], d) }

func (m *ZzvMem) Put32(a uint64, v uint32) {
	m.B[a], m.B[a+1], m.B[a+2], m.B[a+3] = byte(v), byte(v>>8), byte(v>>16), byte(v>>24)
}
func (m *ZzvMem) Put64(a uint64, v uint64) { m.Put32(a, uint32(v)); m.Put32(a+4, uint32(v>>32)) }
func (m *ZzvMem) Get32(a uint64) uint32 {
	return uint32(m.B[a]) | uint32(m.B[a+1])<<8 | uint32(m.B[a+2])<<16 | uint32(m.B[a+3])<<24
}

const (
	ZzvPacketAddr  = 0x100
	ZzvKernargAddr = 0x200
	ZzvCodeAddr    = 0x1000
)

// ZzvRunWG places the code object and the AQL packet in memory, builds the
// work-group wgIndex of the grid with the real grid builder and runs it to
// completion on a real emulation ComputeUnit (real decoder, the given ALU).
func ZzvRunWG(alu ALU, mem *ZzvMem, co *insts.KernelCodeObject, grid [3]uint32, wg [3]uint16, wgIndex int, cdna3 bool, ldsBytes ...uint32) {
	copy(mem.B[ZzvCodeAddr:], co.Data)
	pkt := &kernels.HsaKernelDispatchPacket{WorkgroupSizeX: wg[0], WorkgroupSizeY: wg[1], WorkgroupSizeZ: wg[2],
		GridSizeX: grid[0], GridSizeY: grid[1], GridSizeZ: grid[2], GroupSegmentSize: co.GroupSegmentByteSize,
		KernelObject: ZzvCodeAddr, KernargAddress: ZzvKernargAddr}
	for _, n := range ldsBytes {
		pkt.GroupSegmentSize += n // dynamic LDS (LocalPtr kernel arguments)
	}
	// the packet as the driver copies it to device memory
	p := uint64(ZzvPacketAddr)
	for i, v := range []uint16{pkt.Header, pkt.Setup, wg[0], wg[1], wg[2], 0} {
		mem.B[p+uint64(2*i)], mem.B[p+uint64(2*i)+1] = byte(v), byte(v>>8)
	}
	mem.Put32(p+12, grid[0])
	mem.Put32(p+16, grid[1])
	mem.Put32(p+20, grid[2])
	mem.Put32(p+24, pkt.PrivateSegmentSize)
	mem.Put32(p+28, pkt.GroupSegmentSize)
	mem.Put64(p+32, pkt.KernelObject)
	mem.Put64(p+40, pkt.KernargAddress)
	gb := kernels.NewGridBuilder()
	gb.SetKernel(kernels.KernelLaunchInfo{CodeObject: co, Packet: pkt, PacketAddr: ZzvPacketAddr})
	gb.Skip(wgIndex)
	raw := gb.NextWG()
	dec := insts.NewDisassembler()
	dec.IsCDNA3 = cdna3
	cu := NewComputeUnit("CU", simstub.NewEngine(), dec, alu, mem)
	req := protocol.MapWGReqBuilder{}.WithSrc("ACE").WithDst(cu.ToDispatcher.AsRemote()).WithPID(1).WithWG(raw).Build()
	cu.wfs[raw] = make([]*Wavefront, 0, 64)
	cu.runWG(req)
}
