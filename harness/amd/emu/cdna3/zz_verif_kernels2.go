package cdna3

import (
	"github.com/sarchlab/mgpusim/v4/amd/emu"
	"github.com/sarchlab/mgpusim/v4/amd/insts"
	verif "github.com/sarchlab/mgpusim/v4/zzverif"
	"github.com/sarchlab/mgpusim/v4/zzverif/c01data"
)

// VerifKernelBitonicSortCDNA3: the gfx942 image of amdappsdk/bitonicsort on
// the CDNA3 ALU: complete sort of 4 symbolic values (3 launches of 2
// work-items in a clipped work-group), both directions, against the reference
// network and the benchmark's sortedness criterion.
func VerifKernelBitonicSortCDNA3() {
	k := c01data.Kernels["bitonicsort.cdna3"]
	verif.Assert(k != nil, "harness: kernel not extracted")
	if k == nil {
		return
	}
	meta := k.Meta
	co := &insts.KernelCodeObject{KernelCodeObjectMeta: &meta, Data: []byte(k.Data), Version: insts.CodeObjectVersion(k.Version)}
	const n = 4
	const arr = 0x4000
	mem := &emu.ZzvMem{B: make([]byte, 0x5000)}
	dir := uint32(verif.Choice(2))
	var ref [n]uint32
	for i := range ref {
		ref[i] = verif.U32()
		mem.Put32(arr+uint64(4*i), ref[i])
	}
	alu := NewALU(mem)
	ka := uint64(emu.ZzvKernargAddr)
	for stage := uint32(0); stage < 2; stage++ {
		for pass := uint32(0); pass <= stage; pass++ {
			mem.Put64(ka+0, arr)
			mem.Put32(ka+8, stage)
			mem.Put32(ka+12, pass)
			mem.Put32(ka+16, dir)
			mem.Put32(ka+24, 0) // hidden block count x: numWi/64
			mem.Put32(ka+28, 1)
			mem.Put32(ka+32, 1)
			mem.B[ka+36], mem.B[ka+38], mem.B[ka+40] = 64, 1, 1 // hidden group sizes
			mem.B[ka+42] = n / 2                                  // hidden remainder x
			mem.B[ka+88] = 1                                      // hidden grid dims
			emu.ZzvRunWG(alu, mem, co, [3]uint32{n / 2, 1, 1}, [3]uint16{64, 1, 1}, 0, true)
			dist := uint32(1) << (stage - pass)
			for t := uint32(0); t < n/2; t++ {
				l := t%dist + t/dist*2*dist
				r := l + dist
				inc := dir
				if (t/(1<<stage))%2 == 1 {
					inc = 1 - inc
				}
				a, b := ref[l], ref[r]
				lo := uint32(verif.Ite64(a > b, uint64(b), uint64(a)))
				hi := uint32(verif.Ite64(a > b, uint64(a), uint64(b)))
				if inc == 1 {
					ref[l], ref[r] = lo, hi
				} else {
					ref[l], ref[r] = hi, lo
				}
			}
		}
	}
	same, sorted := true, true
	for i := 0; i < n; i++ {
		v := mem.Get32(arr + uint64(4*i))
		same = verif.And(same, v == ref[i])
		if i+1 < n {
			w := mem.Get32(arr + uint64(4*(i+1)))
			if dir == 1 {
				sorted = verif.And(sorted, v <= w)
			} else {
				sorted = verif.And(sorted, v >= w)
			}
		}
	}
	verif.Assert(same, "bitonicsort (gfx942): device array differs from the reference network")
	verif.Assert(sorted, "bitonicsort (gfx942): result not sorted (Benchmark.Verify)")
	verif.Observe(uint64(mem.Get32(arr)))
}
