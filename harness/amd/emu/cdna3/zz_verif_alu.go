package cdna3

// C06 / C03 harnesses over both ALU implementations (emu.ALUImpl = GCN3,
// cdna3.ALU = CDNA3), driven through the real decoder and the real
// emu.Wavefront operand access.

import (
	"runtime"
	"strings"

	"github.com/sarchlab/akita/v4/mem/vm"
	"github.com/sarchlab/mgpusim/v4/amd/emu"
	"github.com/sarchlab/mgpusim/v4/amd/insts"
	verif "github.com/sarchlab/mgpusim/v4/zzverif"
)

// zzvState is an InstEmuState whose instruction can be set from outside the
// emu package; every operand access is emu.Wavefront's own.
type zzvState struct {
	*emu.Wavefront
	inst *insts.Inst
}

func (s *zzvState) Inst() *insts.Inst { return s.inst }

// zzvMem is a flat byte-addressed StorageAccessor; untouched bytes come from a
// shared lazily-drawn symbolic initial image so that several runs start from
// the same memory.
type zzvMem struct {
	init   map[uint64]uint8
	data   map[uint64]uint8
	stores []uint64
}

func (m *zzvMem) Read(pid vm.PID, a, n uint64) []byte {
	out := make([]byte, n)
	for i := uint64(0); i < n; i++ {
		if v, ok := m.data[a+i]; ok {
			out[i] = v
			continue
		}
		v, ok := m.init[a+i]
		if !ok {
			v = verif.U8()
			m.init[a+i] = v
		}
		out[i] = v
	}
	return out
}

func (m *zzvMem) Write(pid vm.PID, a uint64, d []byte) {
	for i := range d {
		m.data[a+uint64(i)] = d[i]
	}
	m.stores = append(m.stores, a)
}

// register numbers used by the encoded operands (spaced so that 64..128-bit
// operands do not overlap)
const (
	zzvRSrc0 = 4
	zzvRSrc1 = 8
	zzvRSrc2 = 12
	zzvRDst  = 16
	zzvRData = 20
	zzvRAddr = 24
	zzvRTop  = 32 // registers [0,zzvRTop) are symbolic in the lanes under test
	zzvSDst  = 10 // s[10:11]
)

// zzvVectorRows: the rows of the vector formats.
func zzvVectorRows() []*insts.InstType {
	var out []*insts.InstType
	for _, r := range insts.ZzvRows() {
		switch r.Format.FormatType {
		case insts.VOP1, insts.VOP2, insts.VOPC, insts.VOP3a, insts.VOP3b, insts.DS, insts.FLAT:
			out = append(out, r)
		}
	}
	return out
}

func zzvScalarRows() []*insts.InstType {
	var out []*insts.InstType
	for _, r := range insts.ZzvRows() {
		switch r.Format.FormatType {
		case insts.SOP1, insts.SOP2, insts.SOPC, insts.SOPK:
			out = append(out, r)
		}
	}
	return out
}

var zzvVRows, zzvSRows []*insts.InstType

func init() {
	zzvVRows = zzvVectorRows()
	zzvSRows = zzvScalarRows()
}

// zzvEncodeVector builds a decodable instance of the row with VGPR operands.
func zzvEncodeVector(row *insts.InstType, cdna bool) *insts.Inst {
	v := map[string]uint64{}
	switch row.Format.FormatType {
	case insts.VOP2:
		v["src0"], v["vsrc1"], v["vdst"] = 256+zzvRSrc0, zzvRSrc1, zzvRDst
	case insts.VOP1:
		v["src0"], v["vdst"] = 256+zzvRSrc0, zzvRDst
	case insts.VOPC:
		v["src0"], v["vsrc1"] = 256+zzvRSrc0, zzvRSrc1
	case insts.VOP3a:
		v["vdst"], v["src0"], v["src1"], v["src2"] = zzvRDst, 256+zzvRSrc0, 256+zzvRSrc1, 256+zzvRSrc2
		if row.Opcode <= 255 {
			v["vdst"] = zzvSDst // compare: scalar destination pair
		}
		if row.Opcode == 256 {
			v["src2"] = zzvSDst // v_cndmask_b32_e64: the selector is a scalar lane mask
		}
	case insts.VOP3b:
		v["vdst"], v["sdst"], v["src0"], v["src1"], v["src2"] = zzvRDst, zzvSDst, 256+zzvRSrc0, 256+zzvRSrc1, 256+zzvRSrc2
		if row.SRC2Width == 64 && row.Opcode != 480 && row.Opcode != 481 {
			v["src2"] = 106 // carry-in mask operand: vcc
		}
	case insts.DS:
		v["addr"], v["data0"], v["data1"], v["vdst"], v["offset0"], v["offset1"] = zzvRAddr, zzvRData, zzvRSrc2, zzvRDst, 4, 0
		switch row.Opcode {
		case 14, 15, 46, 47, 55, 56, 78, 79, 110, 111, 119, 120:
			v["offset0"], v["offset1"] = 1, 2 // two-offset forms (scaled by the element size)
		}
	case insts.FLAT:
		v["addr"], v["data"], v["vdst"], v["saddr"] = zzvRAddr, zzvRData, zzvRDst, 0x7f
	}
	inst, err := insts.ZzvDecode(insts.ZzvEncode(row, v), cdna)
	if err != nil {
		return nil
	}
	return inst
}

type zzvRun struct {
	wf    *emu.Wavefront
	mem   *zzvMem
	lds   []byte
	notImplemented bool
	fault string
}

// zzvExec runs one instruction on a fresh wavefront built by `fill`.
func zzvExec(gcn3 bool, inst *insts.Inst, init map[uint64]uint8, fill func(wf *emu.Wavefront, lds []byte)) (r *zzvRun) {
	r = &zzvRun{mem: &zzvMem{init: init, data: map[uint64]uint8{}}}
	r.wf = emu.NewWavefront(nil)
	r.lds = make([]byte, 256)
	fill(r.wf, r.lds)
	st := &zzvState{Wavefront: r.wf, inst: inst}
	defer func() {
		if p := recover(); p != nil {
			if _, isRT := p.(runtime.Error); isRT {
				r.fault = "runtime error"
				return
			}
			if s, ok := p.(string); ok && (strings.Contains(s, "not implemented") || strings.Contains(s, "not supported") || strings.Contains(s, "unsupported")) {
				r.notImplemented = true
				return
			}
			r.notImplemented = true // any explicit diagnostic
		}
	}()
	if gcn3 {
		alu := emu.NewALU(r.mem)
		alu.SetLDS(r.lds)
		alu.Run(st)
	} else {
		alu := NewALU(r.mem)
		alu.SetLDS(r.lds)
		alu.Run(st)
	}
	return r
}

func zzvLE32(b []byte) uint32 {
	return uint32(b[0]) | uint32(b[1])<<8 | uint32(b[2])<<16 | uint32(b[3])<<24
}

// lane data: the symbolic VGPR window of one lane plus its EXEC/VCC bits and
// its (concrete, distinct) LDS/memory address
type zzvLane struct {
	regs  []byte // 4*zzvRTop bytes
	exec  bool
	vcc   bool
	sbit  bool // bit of the scalar mask pair s[10:11] (carry-in of VOP3b forms)
	addr  uint32
}

func zzvNewLane(addr uint32) *zzvLane {
	l := &zzvLane{regs: verif.Bytes(4 * zzvRTop), exec: verif.Bool(), vcc: verif.Bool(), sbit: verif.Bool(), addr: addr}
	// the address register pair holds the lane's own (concrete) address
	l.regs[4*zzvRAddr], l.regs[4*zzvRAddr+1], l.regs[4*zzvRAddr+2], l.regs[4*zzvRAddr+3] = byte(addr), byte(addr>>8), 0, 0
	for i := 4; i < 8; i++ {
		l.regs[4*zzvRAddr+i] = 0
	}
	return l
}

func zzvBit(b bool, lane int) uint64 {
	return verif.Ite64(b, uint64(1)<<uint(lane), 0)
}

// VerifLaneIndependence (C06): for every vector instruction the ALU
// implements and a pair of lanes (a,b): swapping the two lanes' inputs
// (VGPRs, EXEC/VCC/scalar-mask bits, addresses) swaps their outputs; lanes
// with EXEC clear keep their registers and make no LDS/memory access; a third,
// inactive lane's data and all other lanes never influence the result.
func VerifLaneIndependence() {
	gcn3 := verif.Choice(2) == 0
	stride := verif.Param("rowStride", 1)
	n := (len(zzvVRows) + stride - 1) / stride
	row := zzvVRows[verif.Choice(n)*stride]
	if only := verif.Param("onlyRow", -1); only >= 0 {
		row = zzvVRows[only]
	}
	inst := zzvEncodeVector(row, !gcn3)
	if inst == nil {
		return
	}
	pairs := [][3]int{{0, 1, 2}, {31, 32, 33}, {5, 40, 63}, {63, 0, 17}}
	p := pairs[verif.Choice(verif.Param("pairs", len(pairs)))]
	a, b, c := p[0], p[1], p[2]
	la, lb := zzvNewLane(0x10), zzvNewLane(0x40)
	lc := zzvNewLane(0x80)
	lc2regs := verif.Bytes(4 * zzvRTop) // alternative contents of the inactive lane c
	sregs := verif.Bytes(4 * 102)
	// the scalar mask pair s[10:11] is assembled from the lanes' bits below
	vccRest, sRest := verif.U64(), verif.U64()
	scc, m0 := verif.U8(), verif.U32()
	mask := ^(uint64(1)<<uint(a) | uint64(1)<<uint(b))
	init := map[uint64]uint8{}
	tag := row.Format.FormatName + "." + row.InstName
	if gcn3 {
		tag = "gcn3 " + tag
	} else {
		tag = "cdna3 " + tag
	}

	mk := func(x, y *zzvLane, cregs []byte) func(wf *emu.Wavefront, lds []byte) {
		return func(wf *emu.Wavefront, lds []byte) {
			copy(wf.SRegFile, sregs)
			sm := sRest&mask | zzvBit(x.sbit, a) | zzvBit(y.sbit, b)
			for i := 0; i < 8; i++ {
				wf.SRegFile[4*zzvSDst+i] = byte(sm >> (8 * uint(i)))
			}
			copy(wf.VRegFile[a*1024:], x.regs)
			copy(wf.VRegFile[b*1024:], y.regs)
			copy(wf.VRegFile[c*1024:], cregs)
			wf.SetEXEC(zzvBit(x.exec, a) | zzvBit(y.exec, b))
			wf.SetVCC(vccRest&mask | zzvBit(x.vcc, a) | zzvBit(y.vcc, b))
			wf.SetSCC(scc)
			wf.M0 = m0
			for i := range lds {
				lds[i] = 0
			}
		}
	}
	r1 := zzvExec(gcn3, inst, init, mk(la, lb, lc.regs))
	if r1.notImplemented {
		verif.Cover("not implemented")
		return
	}
	verif.Assert(r1.fault == "", "memory fault while executing "+tag)
	if r1.fault != "" {
		return
	}
	r2 := zzvExec(gcn3, inst, init, mk(lb, la, lc.regs)) // lanes swapped
	r3 := zzvExec(gcn3, inst, init, mk(la, lb, lc2regs)) // inactive third lane changed
	verif.Assert(!r2.notImplemented && r2.fault == "" && !r3.notImplemented && r3.fault == "", "execution outcome depends on lane data: "+tag)
	if r2.notImplemented || r2.fault != "" || r3.notImplemented || r3.fault != "" {
		return
	}
	verif.Cover("executed")

	// (i) equivariance under the transposition (a b)
	same := true
	for i := 0; i < 4*zzvRTop; i++ {
		same = verif.And(same, verif.And(r1.wf.VRegFile[a*1024+i] == r2.wf.VRegFile[b*1024+i], r1.wf.VRegFile[b*1024+i] == r2.wf.VRegFile[a*1024+i]))
	}
	okI := same
	sw := func(v uint64) uint64 { // swap bits a and b
		ba, bb := (v>>uint(a))&1, (v>>uint(b))&1
		return v&mask | ba<<uint(b) | bb<<uint(a)
	}
	okVcc := r2.wf.VCC() == sw(r1.wf.VCC())
	s1 := uint64(zzvLE32(r1.wf.SRegFile[4*zzvSDst:])) | uint64(zzvLE32(r1.wf.SRegFile[4*zzvSDst+4:]))<<32
	s2 := uint64(zzvLE32(r2.wf.SRegFile[4*zzvSDst:])) | uint64(zzvLE32(r2.wf.SRegFile[4*zzvSDst+4:]))<<32
	okS := s2 == sw(s1)
	okE := verif.And(r1.wf.EXEC() == sw(r2.wf.EXEC()), r1.wf.SCC() == r2.wf.SCC())
	// memory / LDS: the same set of bytes must have been written (addresses are per-lane data, distinct)
	memSame := true
	for addr, v1 := range r1.mem.data {
		v2, ok := r2.mem.data[addr]
		if !ok {
			memSame = false
			break
		}
		memSame = verif.And(memSame, v1 == v2)
	}
	okMem := verif.And(memSame, len(r1.mem.data) == len(r2.mem.data))
	ldsSame := true
	for i := range r1.lds {
		ldsSame = verif.And(ldsSame, r1.lds[i] == r2.lds[i])
	}
	okLds := ldsSame

	// (ii) inactive lanes: registers unchanged, no access from their address
	unch := true
	for i := 0; i < 4*zzvRTop; i++ {
		unch = verif.And(unch, verif.Or(la.exec, r1.wf.VRegFile[a*1024+i] == la.regs[i]))
		unch = verif.And(unch, verif.Or(lb.exec, r1.wf.VRegFile[b*1024+i] == lb.regs[i]))
		unch = verif.And(unch, r1.wf.VRegFile[c*1024+i] == lc.regs[i])
	}
	okU := unch
	for _, st := range r1.mem.stores {
		verif.Assert(st < 0x80 || st >= 0xc0, "an inactive lane performed a memory store: "+tag)
		if st >= 0x10 && st < 0x40 {
			verif.Assert(la.exec, "a lane with EXEC clear performed a memory store: "+tag)
		}
		if st >= 0x40 && st < 0x80 {
			verif.Assert(lb.exec, "a lane with EXEC clear performed a memory store: "+tag)
		}
	}
	for l := 0; l < 64; l++ {
		if l == a || l == b || l == c {
			continue
		}
		z := true
		for i := 0; i < 4*zzvRTop; i += 4 {
			z = verif.And(z, zzvLE32(r1.wf.VRegFile[l*1024+i:]) == 0)
		}
		verif.Assert(z, "a lane outside EXEC was written: "+tag)
	}

	// (iii) the inactive third lane's data never influences anything
	ni := true
	for i := 0; i < 4*zzvRTop; i++ {
		ni = verif.And(ni, verif.And(r1.wf.VRegFile[a*1024+i] == r3.wf.VRegFile[a*1024+i], r1.wf.VRegFile[b*1024+i] == r3.wf.VRegFile[b*1024+i]))
	}
	okN := verif.And(ni, verif.And(r1.wf.VCC() == r3.wf.VCC(), s1 == uint64(zzvLE32(r3.wf.SRegFile[4*zzvSDst:]))|uint64(zzvLE32(r3.wf.SRegFile[4*zzvSDst+4:]))<<32))
	all := verif.And(verif.And(verif.And(okI, okVcc), verif.And(okS, okE)), verif.And(verif.And(okMem, okLds), verif.And(okU, okN)))
	if !verif.Holds(all) {
		// one of the obligations fails for some value: report which
		verif.Assert(okI, "swapping two lanes' inputs does not swap their vector results: "+tag)
		verif.Assert(okVcc, "swapping two lanes' inputs does not swap their VCC bits: "+tag)
		verif.Assert(okS, "swapping two lanes' inputs does not swap their scalar-mask result bits: "+tag)
		verif.Assert(okE, "EXEC/SCC after the instruction depend on the lane order: "+tag)
		verif.Assert(okMem, "memory effects change when two lanes are swapped: "+tag)
		verif.Assert(okLds, "LDS effects change when two lanes are swapped: "+tag)
		verif.Assert(okU, "a lane whose EXEC bit is clear had a vector register changed: "+tag)
		verif.Assert(okN, "another lane's data influenced a lane's result: "+tag)
	} else {
		verif.Assert(true, "all lane-independence obligations: "+tag)
	}
	verif.Observe(r1.wf.VCC())
}

// ---------------- C03: the two ALU implementations against each other ----------------

func zzvEncodeScalar(row *insts.InstType, cdna bool) *insts.Inst {
	v := map[string]uint64{}
	switch row.Format.FormatType {
	case insts.SOP2:
		v["ssrc0"], v["ssrc1"], v["sdst"] = 4, 8, 16
	case insts.SOP1:
		v["ssrc0"], v["sdst"] = 4, 16
	case insts.SOPC:
		v["ssrc0"], v["ssrc1"] = 4, 8
	case insts.SOPK:
		v["sdst"] = 16
	}
	word := insts.ZzvEncode(row, v)
	if row.Format.FormatType == insts.SOPK {
		// symbolic 16-bit immediate
		imm := verif.U16()
		word[0], word[1] = byte(imm), byte(imm>>8)
	}
	inst, err := insts.ZzvDecode(word, cdna)
	if err != nil {
		return nil
	}
	return inst
}

// zzvSameState compares the complete architectural state of two runs.
func zzvSameState(x, y *zzvRun, lanes []int) bool {
	same := true
	for i := range x.wf.SRegFile {
		same = verif.And(same, x.wf.SRegFile[i] == y.wf.SRegFile[i])
	}
	for _, l := range lanes {
		for i := 0; i < 4*zzvRTop; i++ {
			same = verif.And(same, x.wf.VRegFile[l*1024+i] == y.wf.VRegFile[l*1024+i])
		}
	}
	same = verif.And(same, verif.And(x.wf.VCC() == y.wf.VCC(), x.wf.EXEC() == y.wf.EXEC()))
	same = verif.And(same, verif.And(x.wf.SCC() == y.wf.SCC(), x.wf.PC() == y.wf.PC()))
	same = verif.And(same, x.wf.M0 == y.wf.M0)
	for i := range x.lds {
		same = verif.And(same, x.lds[i] == y.lds[i])
	}
	if len(x.mem.data) != len(y.mem.data) {
		return false
	}
	for a, v := range x.mem.data {
		w, ok := y.mem.data[a]
		if !ok {
			return false
		}
		same = verif.And(same, v == w)
	}
	return same
}

// VerifALUAgree (C03, "both implementations obey the same specification"):
// for every decode-table row that both ALUs implement, executing it from the
// same arbitrary state leaves the same complete architectural state.
func VerifALUAgree() {
	vector := verif.Choice(2) == 0
	rows := zzvSRows
	if vector {
		rows = zzvVRows
	}
	stride := verif.Param("rowStride", 1)
	n := (len(rows) + stride - 1) / stride
	row := rows[verif.Choice(n)*stride]
	var ig, ic *insts.Inst
	if vector {
		ig, ic = zzvEncodeVector(row, false), zzvEncodeVector(row, true)
	} else {
		ig, ic = zzvEncodeScalar(row, false), zzvEncodeScalar(row, true)
	}
	if ig == nil || ic == nil {
		return
	}
	a, b := 3, 36
	la, lb := zzvNewLane(0x10), zzvNewLane(0x40)
	sregs := verif.Bytes(4 * 102)
	vcc, exec, scc, m0, pc := verif.U64(), verif.U64(), verif.U8(), verif.U32(), verif.U64()
	init := map[uint64]uint8{}
	fill := func(wf *emu.Wavefront, lds []byte) {
		copy(wf.SRegFile, sregs)
		copy(wf.VRegFile[a*1024:], la.regs)
		copy(wf.VRegFile[b*1024:], lb.regs)
		if vector {
			wf.SetEXEC(zzvBit(la.exec, a) | zzvBit(lb.exec, b))
		} else {
			wf.SetEXEC(exec)
		}
		wf.SetVCC(vcc)
		wf.SetSCC(scc & 1)
		wf.M0 = m0
		wf.SetPC(pc)
		for i := range lds {
			lds[i] = 0
		}
	}
	tag := row.Format.FormatName + "." + row.InstName
	rg := zzvExec(true, ig, init, fill)
	rc := zzvExec(false, ic, init, fill)
	verif.Assert(rg.fault == "" && rc.fault == "", "memory fault while executing "+tag)
	if rg.notImplemented || rc.notImplemented || rg.fault != "" || rc.fault != "" {
		verif.Cover("not implemented in at least one ALU")
		return
	}
	verif.Cover("both implement")
	verif.Assert(zzvSameState(rg, rc, []int{a, b}), "the GCN3 and CDNA3 ALUs leave different states for "+tag)
}
