package cdna3

// C03 reference semantics: an independent transcription of the GCN3 / CDNA3
// ISA manuals for the scalar formats and the integer/logic core of the vector
// formats, as functions over plain values (the symbolic interpreter turns them
// into SMT terms). Identical in both ISAs unless noted.

import (
	"math"
	"strings"

	"github.com/sarchlab/mgpusim/v4/amd/emu"
	"github.com/sarchlab/mgpusim/v4/amd/insts"
	verif "github.com/sarchlab/mgpusim/v4/zzverif"
)

// branch-free population count and bit reversal (reference versions)
func zzvPop64(x uint64) uint64 {
	x = x - ((x >> 1) & 0x5555555555555555)
	x = (x & 0x3333333333333333) + ((x >> 2) & 0x3333333333333333)
	x = (x + (x >> 4)) & 0x0f0f0f0f0f0f0f0f
	x = x + (x >> 8)
	x = x + (x >> 16)
	x = x + (x >> 32)
	return x & 0x7f
}

func zzvRev64(x uint64) uint64 {
	x = (x>>1)&0x5555555555555555 | (x&0x5555555555555555)<<1
	x = (x>>2)&0x3333333333333333 | (x&0x3333333333333333)<<2
	x = (x>>4)&0x0f0f0f0f0f0f0f0f | (x&0x0f0f0f0f0f0f0f0f)<<4
	x = (x>>8)&0x00ff00ff00ff00ff | (x&0x00ff00ff00ff00ff)<<8
	x = (x>>16)&0x0000ffff0000ffff | (x&0x0000ffff0000ffff)<<16
	return x>>32 | x<<32
}

func zzvB2U(b bool) uint64 { return verif.Ite64(b, 1, 0) }

func zzvSext(v uint64, w uint) uint64 { // sign-extend the low w bits
	sh := 64 - w
	return uint64(int64(v<<sh) >> sh)
}

// scalar spec result
type zzvSRes struct {
	known   bool
	d       uint64 // destination value (32 or 64 bits as the row says)
	writesD bool
	scc     uint64
	setsSCC bool
	exec    uint64
	setExec bool
}

// zzvScalarSpec: s0,s1 are the source operands at the row's widths, d0 the old
// destination, imm the (SOPK) immediate.
func zzvScalarSpec(name string, s0, s1, d0, scc, exec uint64, imm uint16) zzvSRes {
	r := zzvSRes{known: true, writesD: true}
	lo := func(v uint64) uint64 { return v & 0xffffffff }
	s032, s132 := lo(s0), lo(s1)
	nz := func(v uint64) { r.scc, r.setsSCC = zzvB2U(v != 0), true }
	switch name {
	case "s_add_u32":
		sum := s032 + s132
		r.d, r.scc, r.setsSCC = lo(sum), sum>>32, true
	case "s_sub_u32":
		r.d, r.scc, r.setsSCC = lo(s032-s132), zzvB2U(s132 > s032), true
	case "s_add_i32":
		a, b := int32(s032), int32(s132)
		sum := int64(a) + int64(b)
		r.d, r.scc, r.setsSCC = lo(uint64(sum)), zzvB2U(sum > math.MaxInt32 || sum < math.MinInt32), true
	case "s_sub_i32":
		a, b := int32(s032), int32(s132)
		df := int64(a) - int64(b)
		r.d, r.scc, r.setsSCC = lo(uint64(df)), zzvB2U(df > math.MaxInt32 || df < math.MinInt32), true
	case "s_addc_u32":
		sum := s032 + s132 + (scc & 1)
		r.d, r.scc, r.setsSCC = lo(sum), sum>>32, true
	case "s_subb_u32":
		r.d, r.scc, r.setsSCC = lo(s032-s132-(scc&1)), zzvB2U(s132+(scc&1) > s032), true
	case "s_min_i32":
		c := int32(s032) < int32(s132)
		r.d, r.scc, r.setsSCC = verif.Ite64(c, s032, s132), zzvB2U(c), true
	case "s_min_u32":
		c := s032 < s132
		r.d, r.scc, r.setsSCC = verif.Ite64(c, s032, s132), zzvB2U(c), true
	case "s_max_i32":
		c := int32(s032) > int32(s132)
		r.d, r.scc, r.setsSCC = verif.Ite64(c, s032, s132), zzvB2U(c), true
	case "s_max_u32":
		c := s032 > s132
		r.d, r.scc, r.setsSCC = verif.Ite64(c, s032, s132), zzvB2U(c), true
	case "s_cselect_b32":
		r.d = verif.Ite64(scc&1 != 0, s032, s132)
	case "s_cselect_b64":
		r.d = verif.Ite64(scc&1 != 0, s0, s1)
	case "s_and_b32":
		r.d = s032 & s132
		nz(r.d)
	case "s_and_b64":
		r.d = s0 & s1
		nz(r.d)
	case "s_or_b32":
		r.d = s032 | s132
		nz(r.d)
	case "s_or_b64":
		r.d = s0 | s1
		nz(r.d)
	case "s_xor_b32":
		r.d = s032 ^ s132
		nz(r.d)
	case "s_xor_b64":
		r.d = s0 ^ s1
		nz(r.d)
	case "s_andn2_b32":
		r.d = s032 &^ s132
		nz(r.d)
	case "s_andn2_b64":
		r.d = s0 &^ s1
		nz(r.d)
	case "s_orn2_b32":
		r.d = lo(s032 | ^s132)
		nz(r.d)
	case "s_orn2_b64":
		r.d = s0 | ^s1
		nz(r.d)
	case "s_nand_b32":
		r.d = lo(^(s032 & s132))
		nz(r.d)
	case "s_nand_b64":
		r.d = ^(s0 & s1)
		nz(r.d)
	case "s_nor_b32":
		r.d = lo(^(s032 | s132))
		nz(r.d)
	case "s_nor_b64":
		r.d = ^(s0 | s1)
		nz(r.d)
	case "s_xnor_b32":
		r.d = lo(^(s032 ^ s132))
		nz(r.d)
	case "s_xnor_b64":
		r.d = ^(s0 ^ s1)
		nz(r.d)
	case "s_lshl_b32":
		r.d = lo(s032 << (s132 & 31))
		nz(r.d)
	case "s_lshl_b64":
		r.d = s0 << (s132 & 63)
		nz(r.d)
	case "s_lshr_b32":
		r.d = s032 >> (s132 & 31)
		nz(r.d)
	case "s_lshr_b64":
		r.d = s0 >> (s132 & 63)
		nz(r.d)
	case "s_ashr_i32":
		r.d = lo(uint64(int64(int32(s032)) >> (s132 & 31)))
		nz(r.d)
	case "s_ashr_i64":
		r.d = uint64(int64(s0) >> (s132 & 63))
		nz(r.d)
	case "s_bfm_b32":
		r.d = lo(((uint64(1) << (s032 & 31)) - 1) << (s132 & 31))
	case "s_bfm_b64":
		r.d = ((uint64(1) << (s032 & 63)) - 1) << (s132 & 63)
	case "s_mul_i32":
		r.d = lo(s032 * s132)
	case "s_bfe_u32":
		off, w := s132&31, (s132>>16)&0x7f
		r.d = lo((s032 >> off) & ((uint64(1) << w) - 1))
		nz(r.d)
	case "s_bfe_i32":
		off, w := s132&31, (s132>>16)&0x7f
		verif.Assume(off+w <= 32) // well-formed field; wider "fields" are not specified consistently
		f := (s032 >> off) & ((uint64(1) << w) - 1)
		// sign-extend from bit w-1 (w = 0 gives 0)
		neg := w != 0 && w < 64 && (f>>((w-1)&63))&1 != 0
		r.d = lo(verif.Ite64(neg, f|^((uint64(1)<<w)-1), f))
		nz(r.d)
	case "s_absdiss_i32":
		a, b := int64(int32(s032)), int64(int32(s132))
		df := a - b
		r.d = lo(verif.Ite64(df < 0, uint64(-df), uint64(df)))
		nz(r.d)
	// ---- SOPC (no destination) ----
	case "s_cmp_eq_i32", "s_cmp_eq_u32":
		r.writesD, r.scc, r.setsSCC = false, zzvB2U(s032 == s132), true
	case "s_cmp_lg_i32", "s_cmp_lg_u32":
		r.writesD, r.scc, r.setsSCC = false, zzvB2U(s032 != s132), true
	case "s_cmp_gt_i32":
		r.writesD, r.scc, r.setsSCC = false, zzvB2U(int32(s032) > int32(s132)), true
	case "s_cmp_ge_i32":
		r.writesD, r.scc, r.setsSCC = false, zzvB2U(int32(s032) >= int32(s132)), true
	case "s_cmp_lt_i32":
		r.writesD, r.scc, r.setsSCC = false, zzvB2U(int32(s032) < int32(s132)), true
	case "s_cmp_le_i32":
		r.writesD, r.scc, r.setsSCC = false, zzvB2U(int32(s032) <= int32(s132)), true
	case "s_cmp_gt_u32":
		r.writesD, r.scc, r.setsSCC = false, zzvB2U(s032 > s132), true
	case "s_cmp_ge_u32":
		r.writesD, r.scc, r.setsSCC = false, zzvB2U(s032 >= s132), true
	case "s_cmp_lt_u32":
		r.writesD, r.scc, r.setsSCC = false, zzvB2U(s032 < s132), true
	case "s_cmp_le_u32":
		r.writesD, r.scc, r.setsSCC = false, zzvB2U(s032 <= s132), true
	case "s_bitcmp0_b32":
		r.writesD, r.scc, r.setsSCC = false, zzvB2U((s032>>(s132&31))&1 == 0), true
	case "s_bitcmp1_b32":
		r.writesD, r.scc, r.setsSCC = false, zzvB2U((s032>>(s132&31))&1 == 1), true
	case "s_bitcmp0_b64":
		r.writesD, r.scc, r.setsSCC = false, zzvB2U((s0>>(s132&63))&1 == 0), true
	case "s_bitcmp1_b64":
		r.writesD, r.scc, r.setsSCC = false, zzvB2U((s0>>(s132&63))&1 == 1), true
	case "s_cmp_eq_u64":
		r.writesD, r.scc, r.setsSCC = false, zzvB2U(s0 == s1), true
	case "s_cmp_ne_u64":
		r.writesD, r.scc, r.setsSCC = false, zzvB2U(s0 != s1), true
	// ---- SOPK ----
	case "s_movk_i32":
		r.d = lo(zzvSext(uint64(imm), 16))
	case "s_cmovk_i32":
		r.d = verif.Ite64(scc&1 != 0, lo(zzvSext(uint64(imm), 16)), lo(d0))
	case "s_cmpk_eq_i32":
		r.writesD, r.scc, r.setsSCC = false, zzvB2U(int32(lo(d0)) == int32(int16(imm))), true
	case "s_cmpk_lg_i32":
		r.writesD, r.scc, r.setsSCC = false, zzvB2U(int32(lo(d0)) != int32(int16(imm))), true
	case "s_cmpk_gt_i32":
		r.writesD, r.scc, r.setsSCC = false, zzvB2U(int32(lo(d0)) > int32(int16(imm))), true
	case "s_cmpk_ge_i32":
		r.writesD, r.scc, r.setsSCC = false, zzvB2U(int32(lo(d0)) >= int32(int16(imm))), true
	case "s_cmpk_lt_i32":
		r.writesD, r.scc, r.setsSCC = false, zzvB2U(int32(lo(d0)) < int32(int16(imm))), true
	case "s_cmpk_le_i32":
		r.writesD, r.scc, r.setsSCC = false, zzvB2U(int32(lo(d0)) <= int32(int16(imm))), true
	case "s_cmpk_eq_u32":
		r.writesD, r.scc, r.setsSCC = false, zzvB2U(lo(d0) == uint64(imm)), true
	case "s_cmpk_lg_u32":
		r.writesD, r.scc, r.setsSCC = false, zzvB2U(lo(d0) != uint64(imm)), true
	case "s_cmpk_gt_u32":
		r.writesD, r.scc, r.setsSCC = false, zzvB2U(lo(d0) > uint64(imm)), true
	case "s_cmpk_ge_u32":
		r.writesD, r.scc, r.setsSCC = false, zzvB2U(lo(d0) >= uint64(imm)), true
	case "s_cmpk_lt_u32":
		r.writesD, r.scc, r.setsSCC = false, zzvB2U(lo(d0) < uint64(imm)), true
	case "s_cmpk_le_u32":
		r.writesD, r.scc, r.setsSCC = false, zzvB2U(lo(d0) <= uint64(imm)), true
	case "s_addk_i32":
		sum := int64(int32(lo(d0))) + int64(int16(imm))
		r.d, r.scc, r.setsSCC = lo(uint64(sum)), zzvB2U(sum > math.MaxInt32 || sum < math.MinInt32), true
	case "s_mulk_i32":
		r.d = lo(uint64(int64(int32(lo(d0))) * int64(int16(imm))))
	// ---- SOP1 ----
	case "s_mov_b32":
		r.d = s032
	case "s_mov_b64":
		r.d = s0
	case "s_cmov_b32":
		r.d = verif.Ite64(scc&1 != 0, s032, lo(d0))
	case "s_cmov_b64":
		r.d = verif.Ite64(scc&1 != 0, s0, d0)
	case "s_not_b32":
		r.d = lo(^s032)
		nz(r.d)
	case "s_not_b64":
		r.d = ^s0
		nz(r.d)
	case "s_brev_b32":
		r.d = zzvRev64(s032) >> 32
	case "s_brev_b64":
		r.d = zzvRev64(s0)
	case "s_bcnt1_i32_b32":
		r.d = zzvPop64(s032)
		nz(r.d)
	case "s_bcnt1_i32_b64":
		r.d = zzvPop64(s0)
		nz(r.d)
	case "s_bcnt0_i32_b32":
		r.d = 32 - zzvPop64(s032)
		nz(r.d)
	case "s_bcnt0_i32_b64":
		r.d = 64 - zzvPop64(s0)
		nz(r.d)
	case "s_sext_i32_i8":
		r.d = lo(zzvSext(s032, 8))
	case "s_sext_i32_i16":
		r.d = lo(zzvSext(s032, 16))
	case "s_abs_i32":
		v := int64(int32(s032))
		r.d = lo(verif.Ite64(v < 0, uint64(-v), uint64(v)))
		nz(r.d)
	case "s_and_saveexec_b64":
		r.d, r.exec, r.setExec = exec, s0&exec, true
		nz(r.exec)
	case "s_or_saveexec_b64":
		r.d, r.exec, r.setExec = exec, s0|exec, true
		nz(r.exec)
	case "s_xor_saveexec_b64":
		r.d, r.exec, r.setExec = exec, s0^exec, true
		nz(r.exec)
	case "s_andn2_saveexec_b64":
		r.d, r.exec, r.setExec = exec, s0&^exec, true
		nz(r.exec)
	case "s_orn2_saveexec_b64":
		r.d, r.exec, r.setExec = exec, s0|^exec, true
		nz(r.exec)
	case "s_nand_saveexec_b64":
		r.d, r.exec, r.setExec = exec, ^(s0 & exec), true
		nz(r.exec)
	case "s_nor_saveexec_b64":
		r.d, r.exec, r.setExec = exec, ^(s0 | exec), true
		nz(r.exec)
	case "s_xnor_saveexec_b64":
		r.d, r.exec, r.setExec = exec, ^(s0 ^ exec), true
		nz(r.exec)
	default:
		return zzvSRes{}
	}
	return r
}

func zzvRead64(b []byte) uint64 {
	return uint64(zzvLE32(b)) | uint64(zzvLE32(b[4:]))<<32
}

// VerifScalarSpec (C03): every scalar instruction of the reference subset, on
// both ALUs, from an arbitrary scalar state: destination, SCC, EXEC as the ISA
// prescribes; nothing else changes (all other SGPRs, VCC, M0, PC).
func VerifScalarSpec() {
	gcn3 := verif.Choice(2) == 0
	row := zzvSRows[verif.Choice(len(zzvSRows))]
	name := row.InstName
	if !zzvScalarSpec(name, 0, 0, 0, 0, 0, 0).known {
		return
	}
	inst := zzvEncodeScalar(row, !gcn3)
	if inst == nil {
		return
	}
	var imm uint16
	if inst.SImm16 != nil {
		imm = uint16(inst.SImm16.IntValue)
	}
	sregs := verif.Bytes(4 * 102)
	vcc, exec, scc, m0, pc := verif.U64(), verif.U64(), verif.U8()&1, verif.U32(), verif.U64()
	fill := func(wf *emu.Wavefront, lds []byte) {
		copy(wf.SRegFile, sregs)
		wf.SetEXEC(exec)
		wf.SetVCC(vcc)
		wf.SetSCC(scc)
		wf.M0 = m0
		wf.SetPC(pc)
	}
	tag := row.Format.FormatName + "." + name
	if gcn3 {
		tag = "gcn3 " + tag
	} else {
		tag = "cdna3 " + tag
	}
	r := zzvExec(gcn3, inst, map[uint64]uint8{}, fill)
	verif.Assert(r.fault == "", "memory fault while executing "+tag)
	if r.fault != "" {
		return
	}
	if r.notImplemented {
		verif.Cover("not implemented: " + tag)
		return
	}
	verif.Cover("checked")
	s0, s1, d0 := zzvRead64(sregs[4*4:]), zzvRead64(sregs[4*8:]), zzvRead64(sregs[4*16:])
	// operand widths as the decoder assigns them: SOP2/SOPC by the "64" in the
	// mnemonic, SOP1 by the table's widths
	wide := strings.Contains(name, "64")
	src0Wide, src1Wide, dstWide := wide, wide, wide
	if row.Format.FormatType == insts.SOP1 {
		src0Wide, dstWide = row.SRC0Width == 64, row.DSTWidth == 64
	}
	if !src0Wide {
		s0 &= 0xffffffff
	}
	if !src1Wide {
		s1 &= 0xffffffff
	}
	sp := zzvScalarSpec(name, s0, s1, d0, uint64(scc), exec, imm)
	// destination
	if sp.writesD {
		got := zzvRead64(r.wf.SRegFile[4*16:])
		if dstWide {
			verif.Assert(got == sp.d, "destination differs from the ISA: "+tag)
		} else {
			verif.Assert(got&0xffffffff == sp.d&0xffffffff, "destination differs from the ISA: "+tag)
			verif.Assert(got>>32 == d0>>32, "a 32-bit instruction modified the neighbouring SGPR: "+tag)
		}
	}
	if sp.setsSCC {
		verif.Assert(uint64(r.wf.SCC()) == sp.scc, "SCC differs from the ISA: "+tag)
	} else {
		verif.Assert(r.wf.SCC() == scc, "SCC changed although the ISA leaves it alone: "+tag)
	}
	if sp.setExec {
		verif.Assert(r.wf.EXEC() == sp.exec, "EXEC differs from the ISA: "+tag)
	} else {
		verif.Assert(r.wf.EXEC() == exec, "EXEC changed: "+tag)
	}
	// frame
	frame := true
	for i := 0; i < 4*102; i++ {
		if i >= 4*16 && i < 4*18 {
			continue
		}
		frame = verif.And(frame, r.wf.SRegFile[i] == sregs[i])
	}
	if !sp.writesD {
		for i := 4 * 16; i < 4*18; i++ {
			frame = verif.And(frame, r.wf.SRegFile[i] == sregs[i])
		}
	}
	verif.Assert(frame, "an SGPR other than the destination changed: "+tag)
	verif.Assert(verif.And(r.wf.VCC() == vcc, verif.And(r.wf.M0 == m0, r.wf.PC() == pc)), "VCC, M0 or PC changed: "+tag)
	verif.Observe(uint64(r.wf.SCC()))
}

// ---------------- vector integer/logic core ----------------

// per-lane result of a VOP2/VOPC reference
type zzvVRes struct {
	known    bool
	d        uint64
	writesD  bool
	bit      uint64 // VCC result bit of the lane
	setsBit  bool
}

func zzvVectorSpec(name string, s0, s1, d0, vccIn uint64) zzvVRes {
	r := zzvVRes{known: true, writesD: true}
	lo := func(v uint64) uint64 { return v & 0xffffffff }
	a, b := lo(s0), lo(s1)
	switch name {
	case "v_and_b32_e32":
		r.d = a & b
	case "v_or_b32_e32":
		r.d = a | b
	case "v_xor_b32_e32":
		r.d = a ^ b
	case "v_lshrrev_b32_e32":
		r.d = b >> (a & 31)
	case "v_ashrrev_i32_e32":
		r.d = lo(uint64(int64(int32(b)) >> (a & 31)))
	case "v_lshlrev_b32_e32":
		r.d = lo(b << (a & 31))
	case "v_min_i32_e32":
		r.d = verif.Ite64(int32(a) < int32(b), a, b)
	case "v_max_i32_e32":
		r.d = verif.Ite64(int32(a) > int32(b), a, b)
	case "v_min_u32_e32":
		r.d = verif.Ite64(a < b, a, b)
	case "v_max_u32_e32":
		r.d = verif.Ite64(a > b, a, b)
	case "v_cndmask_b32_e32":
		r.d = verif.Ite64(vccIn != 0, b, a)
	case "v_add_u32_nc": // opcodes 52..54: the carry-less forms
		r.d = lo(a + b)
	case "v_sub_u32_nc":
		r.d = lo(a - b)
	case "v_subrev_u32_nc":
		r.d = lo(b - a)
	case "v_add_u32_e32": // opcode 25 in the shared table: carry-out to VCC
		sum := a + b
		r.d, r.bit, r.setsBit = lo(sum), sum>>32, true
	case "v_sub_u32_e32":
		r.d, r.bit, r.setsBit = lo(a-b), zzvB2U(b > a), true
	case "v_subrev_u32_e32":
		r.d, r.bit, r.setsBit = lo(b-a), zzvB2U(a > b), true
	case "v_addc_u32_e32":
		sum := a + b + vccIn
		r.d, r.bit, r.setsBit = lo(sum), sum>>32, true
	case "v_subb_u32_e32":
		r.d, r.bit, r.setsBit = lo(a-b-vccIn), zzvB2U(b+vccIn > a), true
	case "v_subbrev_u32":
		r.d, r.bit, r.setsBit = lo(b-a-vccIn), zzvB2U(a+vccIn > b), true
	default:
		return zzvVRes{}
	}
	return r
}

// zzvVOP2SpecName: the spec key of a VOP2 row (opcodes 52..54 reuse the
// mnemonics of 25..27 but do not produce a carry).
func zzvVOP2SpecName(r *insts.InstType) string {
	switch int(r.Opcode) {
	case 52:
		return "v_add_u32_nc"
	case 53:
		return "v_sub_u32_nc"
	case 54:
		return "v_subrev_u32_nc"
	}
	if r.Opcode > 30 {
		return ""
	}
	return r.InstName
}

// VerifVectorSpec (C03): VOP2 integer/logic core per lane on both ALUs.
func VerifVectorSpec() {
	gcn3 := verif.Choice(2) == 0
	var rows []*insts.InstType
	for _, r := range zzvVRows {
		if r.Format.FormatType == insts.VOP2 && zzvVectorSpec(zzvVOP2SpecName(r), 0, 0, 0, 0).known {
			rows = append(rows, r)
		}
	}
	row := rows[verif.Choice(len(rows))]
	if gcn3 && row.Opcode >= 52 {
		return // the carry-less forms are gfx9 opcodes; GCN3 does not define them
	}
	inst := zzvEncodeVector(row, !gcn3)
	if inst == nil {
		return
	}
	lanes := []int{[]int{0, 31, 32, 63}[verif.Choice(verif.Param("specLanes", 4))], 0}
	lanes[1] = (lanes[0] + 37) % 64
	a, b := lanes[0], lanes[1]
	la, lb := zzvNewLane(0x10), zzvNewLane(0x40)
	sregs := verif.Bytes(4 * 102)
	vccRest, scc, m0, pc := verif.U64(), verif.U8()&1, verif.U32(), verif.U64()
	mask := ^(uint64(1)<<uint(a) | uint64(1)<<uint(b))
	vcc0 := vccRest&mask | zzvBit(la.vcc, a) | zzvBit(lb.vcc, b)
	exec0 := zzvBit(la.exec, a) | zzvBit(lb.exec, b)
	fill := func(wf *emu.Wavefront, lds []byte) {
		copy(wf.SRegFile, sregs)
		copy(wf.VRegFile[a*1024:], la.regs)
		copy(wf.VRegFile[b*1024:], lb.regs)
		wf.SetEXEC(exec0)
		wf.SetVCC(vcc0)
		wf.SetSCC(scc)
		wf.M0 = m0
		wf.SetPC(pc)
	}
	tag := row.Format.FormatName + "." + row.InstName
	if gcn3 {
		tag = "gcn3 " + tag
	} else {
		tag = "cdna3 " + tag
	}
	r := zzvExec(gcn3, inst, map[uint64]uint8{}, fill)
	verif.Assert(r.fault == "", "memory fault while executing "+tag)
	if r.fault != "" || r.notImplemented {
		return
	}
	wantVCC := vcc0
	anyBit := false
	for li, l := range []*zzvLane{la, lb} {
		lane := lanes[li]
		s0 := uint64(zzvLE32(l.regs[4*zzvRSrc0:]))
		s1 := uint64(zzvLE32(l.regs[4*zzvRSrc1:]))
		d0 := uint64(zzvLE32(l.regs[4*zzvRDst:]))
		sp := zzvVectorSpec(zzvVOP2SpecName(row), s0, s1, d0, zzvB2U(l.vcc))
		got := uint64(zzvLE32(r.wf.VRegFile[lane*1024+4*zzvRDst:]))
		verif.Assert(got == verif.Ite64(l.exec, sp.d, d0), "vector destination differs from the ISA (or an inactive lane was written): "+tag)
		if sp.setsBit {
			anyBit = true
		}
	}
	if anyBit {
		// carry-out forms: VCC bit of an active lane = carry, inactive lanes' bits = 0 (the mask is rebuilt)
		sa := zzvVectorSpec(zzvVOP2SpecName(row), uint64(zzvLE32(la.regs[4*zzvRSrc0:])), uint64(zzvLE32(la.regs[4*zzvRSrc1:])), 0, zzvB2U(la.vcc))
		sb := zzvVectorSpec(zzvVOP2SpecName(row), uint64(zzvLE32(lb.regs[4*zzvRSrc0:])), uint64(zzvLE32(lb.regs[4*zzvRSrc1:])), 0, zzvB2U(lb.vcc))
		// the VCC bit of an active lane is its carry/borrow (bits of inactive lanes are not constrained here)
		gotA, gotB := (r.wf.VCC()>>uint(a))&1, (r.wf.VCC()>>uint(b))&1
		verif.Assert(verif.And(verif.Implies(la.exec, gotA == sa.bit&1), verif.Implies(lb.exec, gotB == sb.bit&1)), "carry/borrow bit in VCC differs from the ISA: "+tag)
	} else {
		verif.Assert(r.wf.VCC() == wantVCC, "VCC changed although the ISA leaves it alone: "+tag)
	}
	// frame: other registers of the lanes, scalar state
	frame := true
	for _, lane := range lanes {
		src := la
		if lane == b {
			src = lb
		}
		for i := 0; i < 4*zzvRTop; i++ {
			if i >= 4*zzvRDst && i < 4*zzvRDst+4 {
				continue
			}
			frame = verif.And(frame, r.wf.VRegFile[lane*1024+i] == src.regs[i])
		}
	}
	for i := range sregs {
		frame = verif.And(frame, r.wf.SRegFile[i] == sregs[i])
	}
	verif.Assert(frame, "a register other than the destination changed: "+tag)
	verif.Assert(verif.And(r.wf.EXEC() == exec0, verif.And(r.wf.SCC() == scc, verif.And(r.wf.M0 == m0, r.wf.PC() == pc))), "EXEC, SCC, M0 or PC changed: "+tag)
}

// VerifVOP3bCarrySpec (C03): the VOP3b forms of the carry-producing integer
// adds/subtracts (opcodes 281..286) per lane on both ALUs: destination, the
// carry/borrow bit in the scalar destination pair for active lanes, carry-in
// taken from the lane's own bit of the mask operand.
func VerifVOP3bCarrySpec() {
	gcn3 := verif.Choice(2) == 0
	names := map[int]string{281: "v_add_u32_e32", 282: "v_sub_u32_e32", 283: "v_subrev_u32_e32", 284: "v_addc_u32_e32", 285: "v_subb_u32_e32", 286: "v_subbrev_u32"}
	var rows []*insts.InstType
	for _, r := range zzvVRows {
		if r.Format.FormatType == insts.VOP3b && names[int(r.Opcode)] != "" {
			rows = append(rows, r)
		}
	}
	row := rows[verif.Choice(len(rows))]
	inst := zzvEncodeVector(row, !gcn3)
	if inst == nil {
		return
	}
	a := []int{0, 31, 32, 63}[verif.Choice(verif.Param("specLanes", 4))]
	b := (a + 37) % 64
	la, lb := zzvNewLane(0x10), zzvNewLane(0x40)
	sregs := verif.Bytes(4 * 102)
	vccRest, scc, m0, pc := verif.U64(), verif.U8()&1, verif.U32(), verif.U64()
	mask := ^(uint64(1)<<uint(a) | uint64(1)<<uint(b))
	vcc0 := vccRest&mask | zzvBit(la.vcc, a) | zzvBit(lb.vcc, b) // carry-in mask (src2 = vcc)
	exec0 := zzvBit(la.exec, a) | zzvBit(lb.exec, b)
	fill := func(wf *emu.Wavefront, lds []byte) {
		copy(wf.SRegFile, sregs)
		copy(wf.VRegFile[a*1024:], la.regs)
		copy(wf.VRegFile[b*1024:], lb.regs)
		wf.SetEXEC(exec0)
		wf.SetVCC(vcc0)
		wf.SetSCC(scc)
		wf.M0 = m0
		wf.SetPC(pc)
	}
	tag := "vop3b." + row.InstName
	if gcn3 {
		tag = "gcn3 " + tag
	} else {
		tag = "cdna3 " + tag
	}
	r := zzvExec(gcn3, inst, map[uint64]uint8{}, fill)
	verif.Assert(r.fault == "", "memory fault while executing "+tag)
	if r.fault != "" || r.notImplemented {
		return
	}
	sd := zzvRead64(r.wf.SRegFile[4*zzvSDst:])
	lanes := []int{a, b}
	for li, l := range []*zzvLane{la, lb} {
		s0 := uint64(zzvLE32(l.regs[4*zzvRSrc0:]))
		s1 := uint64(zzvLE32(l.regs[4*zzvRSrc1:]))
		d0 := uint64(zzvLE32(l.regs[4*zzvRDst:]))
		sp := zzvVectorSpec(names[int(row.Opcode)], s0, s1, d0, zzvB2U(l.vcc))
		got := uint64(zzvLE32(r.wf.VRegFile[lanes[li]*1024+4*zzvRDst:]))
		verif.Assert(got == verif.Ite64(l.exec, sp.d, d0), "vector destination differs from the ISA (or an inactive lane was written): "+tag)
		verif.Assert(verif.Implies(l.exec, (sd>>uint(lanes[li]))&1 == sp.bit&1), "carry/borrow bit in the scalar destination differs from the ISA: "+tag)
	}
	verif.Assert(verif.And(r.wf.EXEC() == exec0, verif.And(r.wf.SCC() == scc, r.wf.PC() == pc)), "EXEC, SCC or PC changed: "+tag)
}

// VerifVOP3aFloatAgree (C03): VOP3a single-precision add/sub/mul with every
// abs/neg source-modifier combination: the two ALU implementations must leave
// the same state (float arithmetic as uninterpreted functions, so any
// difference is a difference in how the modifiers are applied or routed).
func VerifVOP3aFloatAgree() {
	ops := []int{257, 258, 259, 261}
	var row *insts.InstType
	want := ops[verif.Choice(len(ops))]
	for _, r := range zzvVRows {
		if r.Format.FormatType == insts.VOP3a && int(r.Opcode) == want {
			row = r
		}
	}
	if row == nil {
		return
	}
	abs, neg := uint64(verif.Choice(4)), uint64(verif.Choice(4))
	mk := func(cdna bool) *insts.Inst {
		v := map[string]uint64{"vdst": zzvRDst, "src0": 256 + zzvRSrc0, "src1": 256 + zzvRSrc1, "abs": abs, "neg": neg}
		in, err := insts.ZzvDecode(insts.ZzvEncode(row, v), cdna)
		if err != nil {
			return nil
		}
		return in
	}
	ig, ic := mk(false), mk(true)
	if ig == nil || ic == nil {
		return
	}
	a, b := 3, 36
	la, lb := zzvNewLane(0x10), zzvNewLane(0x40)
	sregs := verif.Bytes(4 * 102)
	vcc, scc, m0, pc := verif.U64(), verif.U8()&1, verif.U32(), verif.U64()
	fill := func(wf *emu.Wavefront, lds []byte) {
		copy(wf.SRegFile, sregs)
		copy(wf.VRegFile[a*1024:], la.regs)
		copy(wf.VRegFile[b*1024:], lb.regs)
		wf.SetEXEC(zzvBit(la.exec, a) | zzvBit(lb.exec, b))
		wf.SetVCC(vcc)
		wf.SetSCC(scc)
		wf.M0 = m0
		wf.SetPC(pc)
	}
	init := map[uint64]uint8{}
	rg, rc := zzvExec(true, ig, init, fill), zzvExec(false, ic, init, fill)
	d4 := []string{"0", "1", "2", "3"}
	tag := "vop3a." + row.InstName + " abs=" + d4[abs] + " neg=" + d4[neg]
	verif.Assert(rg.fault == "" && rc.fault == "", "memory fault while executing "+tag)
	if rg.notImplemented || rc.notImplemented || rg.fault != "" || rc.fault != "" {
		return
	}
	verif.Assert(zzvSameState(rg, rc, []int{a, b}), "the GCN3 and CDNA3 ALUs apply the abs/neg source modifiers differently: "+tag)
}

// zzvCmpSpec: integer VOPC comparison by mnemonic ("v_cmp[x]_<op>_<type>...").
func zzvCmpSpec(name string, s0, s1 uint64) (res bool, known, isX, is64 bool) {
	isX = strings.HasPrefix(name, "v_cmpx_")
	rest := strings.TrimPrefix(strings.TrimPrefix(name, "v_cmpx_"), "v_cmp_")
	parts := strings.Split(rest, "_")
	if len(parts) < 2 {
		return
	}
	op, ty := parts[0], parts[1]
	var lt, eq bool
	switch ty {
	case "i32":
		a, b := int32(s0), int32(s1)
		lt, eq = a < b, a == b
	case "u32":
		a, b := uint32(s0), uint32(s1)
		lt, eq = a < b, a == b
	case "i64":
		lt, eq, is64 = int64(s0) < int64(s1), s0 == s1, true
	case "u64":
		lt, eq, is64 = s0 < s1, s0 == s1, true
	default:
		return
	}
	known = true
	switch op {
	case "f":
		res = false
	case "lt":
		res = lt
	case "eq":
		res = eq
	case "le":
		res = verif.Or(lt, eq)
	case "gt":
		res = verif.And(!lt, !eq)
	case "lg", "ne":
		res = !eq
	case "ge":
		res = !lt
	case "tru", "t":
		res = true
	default:
		known = false
	}
	return
}

// VerifVOPCSpec (C03): the integer vector compares (VOPC v_cmp / v_cmpx, 32-
// and 64-bit, signed and unsigned, all eight relations) per lane on both
// ALUs: the VCC bit of every active lane is the comparison of that lane's own
// operands, v_cmpx additionally narrows EXEC to the lanes that passed,
// nothing else changes.
func VerifVOPCSpec() {
	gcn3 := verif.Choice(2) == 0
	var rows []*insts.InstType
	for _, r := range zzvVRows {
		if r.Format.FormatType == insts.VOPC {
			if _, known, _, _ := zzvCmpSpec(r.InstName, 0, 0); known {
				rows = append(rows, r)
			}
		}
	}
	row := rows[verif.Choice(len(rows))]
	inst := zzvEncodeVector(row, !gcn3)
	if inst == nil {
		return
	}
	a := []int{0, 31, 32, 63}[verif.Choice(verif.Param("specLanes", 4))]
	b := (a + 37) % 64
	la, lb := zzvNewLane(0x10), zzvNewLane(0x40)
	sregs := verif.Bytes(4 * 102)
	vccRest, scc, m0, pc := verif.U64(), verif.U8()&1, verif.U32(), verif.U64()
	mask := ^(uint64(1)<<uint(a) | uint64(1)<<uint(b))
	vcc0 := vccRest&mask | zzvBit(la.vcc, a) | zzvBit(lb.vcc, b)
	exec0 := zzvBit(la.exec, a) | zzvBit(lb.exec, b)
	fill := func(wf *emu.Wavefront, lds []byte) {
		copy(wf.SRegFile, sregs)
		copy(wf.VRegFile[a*1024:], la.regs)
		copy(wf.VRegFile[b*1024:], lb.regs)
		wf.SetEXEC(exec0)
		wf.SetVCC(vcc0)
		wf.SetSCC(scc)
		wf.M0 = m0
		wf.SetPC(pc)
	}
	tag := "vopc." + row.InstName
	if gcn3 {
		tag = "gcn3 " + tag
	} else {
		tag = "cdna3 " + tag
	}
	r := zzvExec(gcn3, inst, map[uint64]uint8{}, fill)
	verif.Assert(r.fault == "", "memory fault while executing "+tag)
	if r.fault != "" {
		return
	}
	if r.notImplemented {
		verif.Cover("not implemented: " + tag)
		return
	}
	lanes := []int{a, b}
	isX := false
	okBits, okExec := true, true
	for li, l := range []*zzvLane{la, lb} {
		s0 := zzvRead64(l.regs[4*zzvRSrc0:])
		s1 := zzvRead64(l.regs[4*zzvRSrc1:])
		res, _, x, is64 := zzvCmpSpec(row.InstName, s0, s1)
		if !is64 {
			res, _, x, _ = zzvCmpSpec(row.InstName, s0&0xffffffff, s1&0xffffffff)
		}
		isX = x
		got := (r.wf.VCC()>>uint(lanes[li]))&1 == 1
		okBits = verif.And(okBits, verif.Implies(l.exec, got == res))
		gotE := (r.wf.EXEC()>>uint(lanes[li]))&1 == 1
		if x {
			okExec = verif.And(okExec, gotE == verif.And(l.exec, res))
		} else {
			okExec = verif.And(okExec, gotE == l.exec)
		}
	}
	verif.Assert(okBits, "VCC bit of an active lane differs from the comparison of its operands: "+tag)
	verif.Assert(okExec, "EXEC after the compare differs from the ISA (v_cmpx narrows it, v_cmp leaves it): "+tag)
	verif.Assert(r.wf.EXEC()&mask == 0, "EXEC bits of lanes that were inactive were set: "+tag)
	_ = isX
	frame := true
	for _, lane := range lanes {
		src := la
		if lane == b {
			src = lb
		}
		for i := 0; i < 4*zzvRTop; i++ {
			frame = verif.And(frame, r.wf.VRegFile[lane*1024+i] == src.regs[i])
		}
	}
	for i := range sregs {
		frame = verif.And(frame, r.wf.SRegFile[i] == sregs[i])
	}
	verif.Assert(frame, "a register changed during a compare: "+tag)
	verif.Assert(verif.And(r.wf.SCC() == scc, verif.And(r.wf.M0 == m0, r.wf.PC() == pc)), "SCC, M0 or PC changed: "+tag)
	verif.Cover("checked")
}

// zzvVOP1Spec: integer/bit VOP1 operations by mnemonic.
func zzvVOP1Spec(name string, s0 uint64) (d uint64, known bool) {
	a := s0 & 0xffffffff
	clz := func(x uint64) uint64 { // leading zeros of a 32-bit value, 0xffffffff for 0
		r := uint64(0xffffffff)
		for i := 0; i < 32; i++ { // lowest set bit seen last wins -> highest set bit
			r = verif.Ite64((x>>uint(i))&1 == 1, uint64(31-i), r)
		}
		return r
	}
	switch name {
	case "v_mov_b32_e32":
		return a, true
	case "v_not_b32_e32":
		return ^a & 0xffffffff, true
	case "v_bfrev_b32_e32":
		r := uint64(0)
		for i := 0; i < 32; i++ {
			r |= ((a >> uint(i)) & 1) << uint(31-i)
		}
		return r, true
	case "v_ffbh_u32_e32":
		return clz(a), true
	case "v_ffbl_b32":
		r := uint64(0xffffffff)
		for i := 31; i >= 0; i-- { // highest set bit seen first, lowest wins
			r = verif.Ite64((a>>uint(i))&1 == 1, uint64(i), r)
		}
		return r, true
	case "v_ffbh_i32":
		sign := (a >> 31) & 1
		x := verif.Ite64(sign == 1, ^a&0xffffffff, a) // bits that differ from the sign
		return clz(x), true
	}
	return 0, false
}

// VerifVOP1Spec (C03): the integer/bit VOP1 operations (mov, not, bit
// reverse, find-first-bit high/low, signed find-first-bit) per lane on both
// ALUs: destination of active lanes per the ISA, inactive lanes and every
// other register untouched.
func VerifVOP1Spec() {
	gcn3 := verif.Choice(2) == 0
	var rows []*insts.InstType
	for _, r := range zzvVRows {
		if r.Format.FormatType == insts.VOP1 {
			if _, known := zzvVOP1Spec(r.InstName, 0); known {
				rows = append(rows, r)
			}
		}
	}
	row := rows[verif.Choice(len(rows))]
	inst := zzvEncodeVector(row, !gcn3)
	if inst == nil {
		return
	}
	a := []int{0, 31, 32, 63}[verif.Choice(verif.Param("specLanes", 4))]
	b := (a + 37) % 64
	la, lb := zzvNewLane(0x10), zzvNewLane(0x40)
	sregs := verif.Bytes(4 * 102)
	vccRest, scc, m0, pc := verif.U64(), verif.U8()&1, verif.U32(), verif.U64()
	mask := ^(uint64(1)<<uint(a) | uint64(1)<<uint(b))
	vcc0 := vccRest&mask | zzvBit(la.vcc, a) | zzvBit(lb.vcc, b)
	exec0 := zzvBit(la.exec, a) | zzvBit(lb.exec, b)
	fill := func(wf *emu.Wavefront, lds []byte) {
		copy(wf.SRegFile, sregs)
		copy(wf.VRegFile[a*1024:], la.regs)
		copy(wf.VRegFile[b*1024:], lb.regs)
		wf.SetEXEC(exec0)
		wf.SetVCC(vcc0)
		wf.SetSCC(scc)
		wf.M0 = m0
		wf.SetPC(pc)
	}
	tag := "vop1." + row.InstName
	if gcn3 {
		tag = "gcn3 " + tag
	} else {
		tag = "cdna3 " + tag
	}
	r := zzvExec(gcn3, inst, map[uint64]uint8{}, fill)
	verif.Assert(r.fault == "", "memory fault while executing "+tag)
	if r.fault != "" {
		return
	}
	if r.notImplemented {
		verif.Cover("not implemented: " + tag)
		return
	}
	lanes := []int{a, b}
	ok := true
	for li, l := range []*zzvLane{la, lb} {
		s0 := uint64(zzvLE32(l.regs[4*zzvRSrc0:]))
		d0 := uint64(zzvLE32(l.regs[4*zzvRDst:]))
		want, _ := zzvVOP1Spec(row.InstName, s0)
		got := uint64(zzvLE32(r.wf.VRegFile[lanes[li]*1024+4*zzvRDst:]))
		ok = verif.And(ok, got == verif.Ite64(l.exec, want, d0))
	}
	verif.Assert(ok, "vector destination differs from the ISA (or an inactive lane was written): "+tag)
	frame := true
	for _, lane := range lanes {
		src := la
		if lane == b {
			src = lb
		}
		for i := 0; i < 4*zzvRTop; i++ {
			if i >= 4*zzvRDst && i < 4*zzvRDst+4 {
				continue
			}
			frame = verif.And(frame, r.wf.VRegFile[lane*1024+i] == src.regs[i])
		}
	}
	for i := range sregs {
		frame = verif.And(frame, r.wf.SRegFile[i] == sregs[i])
	}
	verif.Assert(frame, "a register other than the destination changed: "+tag)
	verif.Assert(verif.And(r.wf.VCC() == vcc0, verif.And(r.wf.EXEC() == exec0, verif.And(r.wf.SCC() == scc, verif.And(r.wf.M0 == m0, r.wf.PC() == pc)))), "VCC, EXEC, SCC, M0 or PC changed: "+tag)
	verif.Cover("checked")
}

// zzvVOP3Spec: three-operand integer/bit VOP3a operations by mnemonic.
// wide reports a 64-bit destination (and 64-bit second source for shifts).
func zzvVOP3Spec(name string, s0, s1, s2 uint64) (d uint64, known, wide bool) {
	lo := func(v uint64) uint64 { return v & 0xffffffff }
	a, b, c := lo(s0), lo(s1), lo(s2)
	minu := func(x, y uint64) uint64 { return verif.Ite64(x < y, x, y) }
	maxu := func(x, y uint64) uint64 { return verif.Ite64(x > y, x, y) }
	mini := func(x, y uint64) uint64 { return verif.Ite64(int32(x) < int32(y), x, y) }
	maxi := func(x, y uint64) uint64 { return verif.Ite64(int32(x) > int32(y), x, y) }
	switch name {
	case "v_bfe_u32":
		off, w := b&31, c&31
		return lo(a>>off) & (uint64(1)<<w - 1), true, false
	case "v_bfe_i32":
		off, w := b&31, c&31
		// S0 is signed: the shift is arithmetic (matters when off+w > 32)
		f := lo(uint64(int64(int32(a))>>off)) & (uint64(1)<<w - 1)
		sign := (f >> ((w - 1) & 31)) & 1
		ext := f | lo(^(uint64(1)<<w - 1))
		return verif.Ite64(w == 0, 0, verif.Ite64(sign == 1, ext, f)), true, false
	case "v_bfi_b32":
		return (a & b) | (lo(^a) & c), true, false
	case "v_alignbit_b32":
		return lo((a<<32 | b) >> (c & 31)), true, false
	case "v_alignbyte_b32":
		return lo((a<<32 | b) >> (8 * (c & 3))), true, false
	case "v_min3_u32":
		return minu(minu(a, b), c), true, false
	case "v_max3_u32":
		return maxu(maxu(a, b), c), true, false
	case "v_med3_u32":
		return maxu(minu(a, b), minu(maxu(a, b), c)), true, false
	case "v_min3_i32":
		return mini(mini(a, b), c), true, false
	case "v_max3_i32":
		return maxi(maxi(a, b), c), true, false
	case "v_med3_i32":
		return maxi(mini(a, b), mini(maxi(a, b), c)), true, false
	case "v_sad_u32":
		return lo(verif.Ite64(a > b, a-b, b-a) + c), true, false
	case "v_lshl_add_u32":
		return lo(a<<(b&31) + c), true, false
	case "v_lshl_or_b32":
		return lo(a<<(b&31)) | c, true, false
	case "v_add_lshl_u32":
		return lo(lo(a+b) << (c & 31)), true, false
	case "v_add3_u32":
		return lo(a + b + c), true, false
	case "v_bfm_b32":
		return lo((uint64(1)<<(a&31) - 1) << (b & 31)), true, false
	case "v_bcnt_u32_b32":
		n := uint64(0)
		for i := 0; i < 32; i++ {
			n += (a >> uint(i)) & 1
		}
		return lo(n + b), true, false
	case "v_lshlrev_b64":
		return s1 << (a & 63), true, true
	case "v_lshrrev_b64":
		return s1 >> (a & 63), true, true
	case "v_ashrrev_i64":
		return uint64(int64(s1) >> (a & 63)), true, true
	}
	return 0, false, false
}

// VerifVOP3Spec (C03): three-operand integer/bit VOP3a operations (bit-field
// extract/insert, align, min3/max3/med3, sad, shift-add/or combinations,
// add3, bfm, bcnt, 64-bit shifts) per lane on both ALUs.
func VerifVOP3Spec() {
	gcn3 := verif.Choice(2) == 0
	var rows []*insts.InstType
	for _, r := range zzvVRows {
		if r.Format.FormatType == insts.VOP3a && r.Opcode >= 448 {
			if _, known, _ := zzvVOP3Spec(r.InstName, 0, 0, 0); known {
				rows = append(rows, r)
			}
		}
	}
	row := rows[verif.Choice(len(rows))]
	inst := zzvEncodeVector(row, !gcn3)
	if inst == nil {
		return
	}
	a := []int{0, 31, 32, 63}[verif.Choice(verif.Param("specLanes", 4))]
	b := (a + 37) % 64
	la, lb := zzvNewLane(0x10), zzvNewLane(0x40)
	sregs := verif.Bytes(4 * 102)
	vccRest, scc, m0, pc := verif.U64(), verif.U8()&1, verif.U32(), verif.U64()
	mask := ^(uint64(1)<<uint(a) | uint64(1)<<uint(b))
	vcc0 := vccRest&mask | zzvBit(la.vcc, a) | zzvBit(lb.vcc, b)
	exec0 := zzvBit(la.exec, a) | zzvBit(lb.exec, b)
	fill := func(wf *emu.Wavefront, lds []byte) {
		copy(wf.SRegFile, sregs)
		copy(wf.VRegFile[a*1024:], la.regs)
		copy(wf.VRegFile[b*1024:], lb.regs)
		wf.SetEXEC(exec0)
		wf.SetVCC(vcc0)
		wf.SetSCC(scc)
		wf.M0 = m0
		wf.SetPC(pc)
	}
	tag := "vop3a." + row.InstName
	if gcn3 {
		tag = "gcn3 " + tag
	} else {
		tag = "cdna3 " + tag
	}
	r := zzvExec(gcn3, inst, map[uint64]uint8{}, fill)
	verif.Assert(r.fault == "", "memory fault while executing "+tag)
	if r.fault != "" {
		return
	}
	if r.notImplemented {
		verif.Cover("not implemented: " + tag)
		return
	}
	lanes := []int{a, b}
	ok := true
	dstBytes := 4
	for li, l := range []*zzvLane{la, lb} {
		s0 := zzvRead64(l.regs[4*zzvRSrc0:])
		s1 := zzvRead64(l.regs[4*zzvRSrc1:])
		s2 := zzvRead64(l.regs[4*zzvRSrc2:])
		want, _, wide := zzvVOP3Spec(row.InstName, s0, s1, s2)
		if wide {
			dstBytes = 8
			d0 := zzvRead64(l.regs[4*zzvRDst:])
			got := zzvRead64(r.wf.VRegFile[lanes[li]*1024+4*zzvRDst:])
			ok = verif.And(ok, got == verif.Ite64(l.exec, want, d0))
		} else {
			d0 := uint64(zzvLE32(l.regs[4*zzvRDst:]))
			got := uint64(zzvLE32(r.wf.VRegFile[lanes[li]*1024+4*zzvRDst:]))
			ok = verif.And(ok, got == verif.Ite64(l.exec, want, d0))
		}
	}
	verif.Assert(ok, "vector destination differs from the ISA (or an inactive lane was written): "+tag)
	frame := true
	for _, lane := range lanes {
		src := la
		if lane == b {
			src = lb
		}
		for i := 0; i < 4*zzvRTop; i++ {
			if i >= 4*zzvRDst && i < 4*zzvRDst+dstBytes {
				continue
			}
			frame = verif.And(frame, r.wf.VRegFile[lane*1024+i] == src.regs[i])
		}
	}
	for i := range sregs {
		frame = verif.And(frame, r.wf.SRegFile[i] == sregs[i])
	}
	verif.Assert(frame, "a register other than the destination changed: "+tag)
	verif.Assert(verif.And(r.wf.VCC() == vcc0, verif.And(r.wf.EXEC() == exec0, verif.And(r.wf.SCC() == scc, verif.And(r.wf.M0 == m0, r.wf.PC() == pc)))), "VCC, EXEC, SCC, M0 or PC changed: "+tag)
	verif.Cover("checked")
}

// VerifDSSpec (C03): the LDS instructions both ALUs implement
// (ds_write_b32/b8, ds_write2_b32/b64, ds_read_b32/b64, ds_read2_b32/b64) on
// two lanes with their own (concrete, distinct) addresses, symbolic data and
// symbolic LDS contents: writes put exactly the data bytes at address + scaled
// offset(s) and nothing else changes in the LDS; reads return exactly those
// bytes; inactive lanes neither write LDS nor receive data.
func VerifDSSpec() {
	gcn3 := verif.Choice(2) == 0
	type dsop struct {
		op, size, scale int
		two, read      bool
	}
	ops := []dsop{{13, 4, 1, false, false}, {14, 4, 4, true, false}, {30, 1, 1, false, false}, {54, 4, 1, false, true},
		{55, 4, 4, true, true}, {78, 8, 8, true, false}, {118, 8, 1, false, true}, {119, 8, 8, true, true}}
	o := ops[verif.Choice(len(ops))]
	var row *insts.InstType
	for _, r := range zzvVRows {
		if r.Format.FormatType == insts.DS && int(r.Opcode) == o.op {
			row = r
		}
	}
	if row == nil {
		return
	}
	inst := zzvEncodeVector(row, !gcn3)
	if inst == nil {
		return
	}
	a := []int{0, 31, 32, 63}[verif.Choice(verif.Param("specLanes", 4))]
	b := (a + 37) % 64
	la, lb := zzvNewLane(0x10), zzvNewLane(0x60)
	lds0 := verif.Bytes(256)
	exec0 := zzvBit(la.exec, a) | zzvBit(lb.exec, b)
	fill := func(wf *emu.Wavefront, lds []byte) {
		copy(wf.VRegFile[a*1024:], la.regs)
		copy(wf.VRegFile[b*1024:], lb.regs)
		copy(lds, lds0)
		wf.SetEXEC(exec0)
	}
	tag := "ds." + row.InstName
	if gcn3 {
		tag = "gcn3 " + tag
	} else {
		tag = "cdna3 " + tag
	}
	r := zzvExec(gcn3, inst, map[uint64]uint8{}, fill)
	verif.Assert(r.fault == "", "memory fault while executing "+tag)
	if r.fault != "" {
		return
	}
	if r.notImplemented {
		verif.Cover("not implemented: " + tag)
		return
	}
	off0, off1 := int(inst.Offset0)*o.scale, int(inst.Offset1)*o.scale
	lanes := []int{a, b}
	// expected LDS: start from the initial contents, apply the active lanes' writes in lane order
	want := make([]byte, 256)
	copy(want, lds0)
	okRead := true
	for li, l := range []*zzvLane{la, lb} {
		base := int(l.addr)
		if !o.read {
			for k := 0; k < o.size; k++ {
				want[base+off0+k] = verif.Ite8(l.exec, l.regs[4*zzvRData+k], want[base+off0+k])
				if o.two {
					want[base+off1+k] = verif.Ite8(l.exec, l.regs[4*zzvRSrc2+k], want[base+off1+k])
				}
			}
			continue
		}
		for k := 0; k < o.size; k++ {
			got := r.wf.VRegFile[lanes[li]*1024+4*zzvRDst+k]
			okRead = verif.And(okRead, got == verif.Ite8(l.exec, lds0[base+off0+k], l.regs[4*zzvRDst+k]))
			if o.two {
				got2 := r.wf.VRegFile[lanes[li]*1024+4*zzvRDst+o.size+k]
				okRead = verif.And(okRead, got2 == verif.Ite8(l.exec, lds0[base+off1+k], l.regs[4*zzvRDst+o.size+k]))
			}
		}
	}
	verif.Assert(okRead, "LDS read returned other bytes than those at address + offset (or an inactive lane was written): "+tag)
	okLDS := true
	for i := range want {
		okLDS = verif.And(okLDS, r.lds[i] == want[i])
	}
	verif.Assert(okLDS, "LDS contents after the instruction differ from the ISA (wrong address, offset scaling, size, or an inactive lane wrote): "+tag)
	frame := true
	nd := 0
	if o.read {
		nd = o.size
		if o.two {
			nd *= 2
		}
	}
	for _, lane := range lanes {
		src := la
		if lane == b {
			src = lb
		}
		for i := 0; i < 4*zzvRTop; i++ {
			if i >= 4*zzvRDst && i < 4*zzvRDst+nd {
				continue
			}
			frame = verif.And(frame, r.wf.VRegFile[lane*1024+i] == src.regs[i])
		}
	}
	verif.Assert(frame, "a register other than the destination changed: "+tag)
	verif.Assert(r.wf.EXEC() == exec0, "EXEC changed: "+tag)
	verif.Cover("checked")
}
