package cdna3

// C01 slice, CDNA3 image: amdappsdk/vectoradd on the emulator.

import (
	"math"

	"github.com/sarchlab/mgpusim/v4/amd/emu"
	"github.com/sarchlab/mgpusim/v4/amd/insts"
	verif "github.com/sarchlab/mgpusim/v4/zzverif"
	"github.com/sarchlab/mgpusim/v4/zzverif/c01data"
)

// VerifKernelVectorAdd: the gfx942 vectoradd kernel, one work-group of 64
// work-items out of a grid of 128 (width 64, height 2; work-group 0 or 1),
// every element of b and c symbolic: a[i] == b[i] + c[i] (the benchmark's
// Verify) for the work-group's elements, every other element of a untouched.
func VerifKernelVectorAdd() {
	k := c01data.Kernels["vectoradd.cdna3"]
	verif.Assert(k != nil, "harness: kernel not extracted")
	if k == nil {
		return
	}
	meta := k.Meta
	co := &insts.KernelCodeObject{KernelCodeObjectMeta: &meta, Data: []byte(k.Data), Version: insts.CodeObjectVersion(k.Version)}
	const n = 128
	const aA, aB, aC = 0x4000, 0x5000, 0x6000
	mem := &emu.ZzvMem{B: make([]byte, 0x7000)}
	wg := verif.Choice(2)
	var b, c [n]uint32
	var a0 [n]uint32
	for i := 0; i < n; i++ {
		b[i], c[i], a0[i] = verif.U32(), verif.U32(), verif.U32()
		mem.Put32(aA+uint64(4*i), a0[i])
		mem.Put32(aB+uint64(4*i), b[i])
		mem.Put32(aC+uint64(4*i), c[i])
	}
	ka := uint64(emu.ZzvKernargAddr)
	mem.Put64(ka+0, aA)
	mem.Put64(ka+8, aB)
	mem.Put64(ka+16, aC)
	mem.Put32(ka+24, 64) // width
	mem.Put32(ka+28, 2)  // height
	mem.Put32(ka+32, 2)  // hidden block count x
	mem.Put32(ka+36, 1)
	mem.Put32(ka+40, 1)
	mem.B[ka+44], mem.B[ka+46], mem.B[ka+48] = 64, 1, 1 // hidden group sizes
	emu.ZzvRunWG(NewALU(mem), mem, co, [3]uint32{n, 1, 1}, [3]uint16{64, 1, 1}, wg, true)
	ok, untouched := true, true
	for i := 0; i < n; i++ {
		got := mem.Get32(aA + uint64(4*i))
		if i/64 == wg {
			want := math.Float32bits(math.Float32frombits(b[i]) + math.Float32frombits(c[i]))
			ok = verif.And(ok, got == want)
		} else {
			untouched = verif.And(untouched, got == a0[i])
		}
	}
	verif.Assert(ok, "vectoradd: a[i] differs from b[i]+c[i]")
	verif.Assert(untouched, "vectoradd: a work-group wrote outside its elements")
	verif.Observe(uint64(mem.Get32(aA)))
}
