package emu

// C01 slice: real benchmark kernels (extracted from the .hsaco files of the
// current tree by zzverif/c01extract) run on the emulator for one work-group
// with universally quantified data, against the benchmark's host reference.

import (
	"math"

	"github.com/sarchlab/mgpusim/v4/amd/insts"
	verif "github.com/sarchlab/mgpusim/v4/zzverif"
	"github.com/sarchlab/mgpusim/v4/zzverif/c01data"
)

func zzvKernel(key string) *insts.KernelCodeObject {
	k := c01data.Kernels[key]
	verif.Assert(k != nil, "harness: kernel not extracted: "+key)
	if k == nil {
		return nil
	}
	meta := k.Meta
	return &insts.KernelCodeObject{KernelCodeObjectMeta: &meta, Data: []byte(k.Data), Version: insts.CodeObjectVersion(k.Version)}
}

// VerifKernelFloydWarshall: amdappsdk/floydwarshall (GCN3 image), one pass k on
// an 8x8 matrix = one work-group of 64 work-items. The distance and path
// matrices are symbolic everywhere (so every lane's "shorter through k?" test
// is symbolic); the result must equal the benchmark's host reference for that
// pass; two work-items' comparisons are open, the others' outcomes are assumed (Verify()'s inner loops on a snapshot).
func VerifKernelFloydWarshall() {
	co := zzvKernel("floydwarshall.gcn3")
	if co == nil {
		return
	}
	const n = 8
	const dist, path = 0x4000, 0x5000
	mem := &ZzvMem{B: make([]byte, 0x6000)}
	ks := []uint32{0, 3, 7}
	if verif.Param("deep", 0) == 1 {
		ks = []uint32{0, 1, 2, 3, 4, 5, 6, 7}
	}
	k := ks[verif.Choice(len(ks))]
	var d, p [n * n]uint32
	for i := range d {
		d[i], p[i] = verif.U32(), verif.U32()
		// the benchmark draws weights below 10; any weight below 2^30 keeps the
		// kernel's signed and the host's unsigned comparison in agreement
		verif.Assume(d[i] < 1<<30)
		mem.Put32(dist+uint64(4*i), d[i])
		mem.Put32(path+uint64(4*i), p[i])
	}
	// the comparison "shorter through k?" is left open for two work-items;
	// for all others its outcome is fixed by an assumption (all update / none
	// updates), otherwise the emulator forks per lane (2^64 paths)
	openPairs := [][2]uint32{{0, 63}, {k*n + 3, 3*n + k}, {27, 36}}
	if verif.Param("deep", 0) == 1 {
		openPairs = append(openPairs, [2]uint32{k*n + k, 9}, [2]uint32{1, 8}, [2]uint32{62, 55})
	}
	op := openPairs[verif.Choice(len(openPairs))]
	others := verif.Choice(2) == 1
	for y := uint32(0); y < n; y++ {
		for x := uint32(0); x < n; x++ {
			if i := y*n + x; i != op[0] && i != op[1] {
				verif.Assume((d[y*n+k]+d[k*n+x] < d[i]) == others)
			}
		}
	}
	mem.Put64(ZzvKernargAddr+0, dist)
	mem.Put64(ZzvKernargAddr+8, path)
	mem.Put32(ZzvKernargAddr+16, n)
	mem.Put32(ZzvKernargAddr+20, k)
	ZzvRunWG(NewALU(mem), mem, co, [3]uint32{n, n, 1}, [3]uint16{n, n, 1}, 0, false)
	ok := true
	for y := uint32(0); y < n; y++ {
		for x := uint32(0); x < n; x++ {
			old := d[y*n+x]
			ind := d[y*n+k] + d[k*n+x]
			wd, wp := old, p[y*n+x]
			// host reference (Benchmark.Verify): unsigned comparison
			less := ind < old
			wd = uint32(verif.Ite64(less, uint64(ind), uint64(wd)))
			wp = uint32(verif.Ite64(less, uint64(k), uint64(wp)))
			ok = verif.And(ok, verif.And(mem.Get32(dist+uint64(4*(y*n+x))) == wd, mem.Get32(path+uint64(4*(y*n+x))) == wp))
		}
	}
	verif.Assert(ok, "floydwarshall: device result differs from the host reference")
	verif.Observe(uint64(mem.Get32(dist)))
}

// VerifKernelMatrixTranspose: amdappsdk/matrixtranspose (GCN3 image), a 64x64
// matrix = one work-group of 16x16 work-items (4 wavefronts, 16 KB of LDS, one
// barrier), every input element symbolic: output[i][j] == input[j][i]
// (Benchmark.Verify) for all 4096 elements.
func VerifKernelMatrixTranspose() {
	co := zzvKernel("matrixtranspose.gcn3")
	if co == nil {
		return
	}
	const w = 64
	const in, out = 0x8000, 0x10000
	mem := &ZzvMem{B: make([]byte, 0x18000)}
	var src [w * w]uint32
	for i := range src {
		src[i] = verif.U32()
		mem.Put32(in+uint64(4*i), src[i])
	}
	ka := uint64(ZzvKernargAddr)
	mem.Put64(ka+0, out)
	mem.Put64(ka+8, in)
	mem.Put32(ka+16, 0)  // block: LDS offset of the dynamic local buffer
	mem.Put32(ka+20, 16) // wiWidth
	mem.Put32(ka+24, 16) // wiHeight
	mem.Put32(ka+28, 1)  // number of work-groups per row
	mem.Put32(ka+32, 0)
	mem.Put32(ka+36, 0)
	ZzvRunWG(NewALU(mem), mem, co, [3]uint32{16, 16, 1}, [3]uint16{16, 16, 1}, 0, false, 16*16*4*4*4)
	ok := true
	for i := 0; i < w; i++ {
		for j := 0; j < w; j++ {
			ok = verif.And(ok, mem.Get32(out+uint64(4*(i*w+j))) == src[j*w+i])
		}
	}
	verif.Assert(ok, "matrixtranspose: output[i][j] differs from input[j][i]")
	verif.Observe(uint64(mem.Get32(out + 4)))
}

// VerifKernelFastWalsh: amdappsdk/fastwalshtransform (GCN3 image), one step
// (step = 1, 2, ..., 64) on 128 symbolic floats = one work-group of 64
// work-items (the benchmark uses 256; the kernel does not depend on it):
// every element equals one step of the host reference in Benchmark.Verify
// (bit patterns; float + and - are uninterpreted but identical on both sides).
func VerifKernelFastWalsh() {
	co := zzvKernel("fastwalshtransform.gcn3")
	if co == nil {
		return
	}
	const n = 128
	const arr = 0x4000
	mem := &ZzvMem{B: make([]byte, 0x5000)}
	step := uint32(1) << uint(verif.Choice(7))
	var t [n]uint32
	for i := range t {
		t[i] = verif.U32()
		mem.Put32(arr+uint64(4*i), t[i])
	}
	mem.Put64(ZzvKernargAddr+0, arr)
	mem.Put32(ZzvKernargAddr+8, step)
	ZzvRunWG(NewALU(mem), mem, co, [3]uint32{n / 2, 1, 1}, [3]uint16{n / 2, 1, 1}, 0, false)
	want := t
	jump := step << 1
	for group := uint32(0); group < step; group++ {
		for pair := group; pair < n; pair += jump {
			match := pair + step
			t1, t2 := math.Float32frombits(t[pair]), math.Float32frombits(t[match])
			want[pair] = math.Float32bits(t1 + t2)
			want[match] = math.Float32bits(t1 - t2)
		}
	}
	ok := true
	for i := 0; i < n; i++ {
		ok = verif.And(ok, mem.Get32(arr+uint64(4*i)) == want[i])
	}
	verif.Assert(ok, "fastwalshtransform: device result differs from one step of the host reference")
	verif.Observe(uint64(mem.Get32(arr)))
}

// VerifKernelBitonicSort: amdappsdk/bitonicsort (GCN3 image), the complete
// sort of 4 symbolic values = 3 kernel launches (stage, pass) of 2 work-items
// each in a clipped work-group of 64, ascending or descending: the final
// array is sorted (Benchmark.Verify) and equals the reference sorting network
// applied to the same input (so it is a permutation of the input).
func VerifKernelBitonicSort() {
	co := zzvKernel("bitonicsort.gcn3")
	if co == nil {
		return
	}
	const n = 4
	const arr = 0x4000
	mem := &ZzvMem{B: make([]byte, 0x5000)}
	dir := uint32(verif.Choice(2))
	var ref [n]uint32
	for i := range ref {
		ref[i] = verif.U32()
		mem.Put32(arr+uint64(4*i), ref[i])
	}
	alu := NewALU(mem)
	for stage := uint32(0); stage < 2; stage++ {
		for pass := uint32(0); pass <= stage; pass++ {
			mem.Put64(ZzvKernargAddr+0, arr)
			mem.Put32(ZzvKernargAddr+8, stage)
			mem.Put32(ZzvKernargAddr+12, pass)
			mem.Put32(ZzvKernargAddr+16, dir)
			ZzvRunWG(alu, mem, co, [3]uint32{n / 2, 1, 1}, [3]uint16{64, 1, 1}, 0, false)
			// the same pass of the reference network
			dist := uint32(1) << (stage - pass)
			for t := uint32(0); t < n/2; t++ {
				l := t%dist + t/dist*2*dist
				r := l + dist
				inc := dir
				if (t/(1<<stage))%2 == 1 {
					inc = 1 - inc
				}
				a, b := ref[l], ref[r]
				lo := uint32(verif.Ite64(a > b, uint64(b), uint64(a)))
				hi := uint32(verif.Ite64(a > b, uint64(a), uint64(b)))
				if inc == 1 {
					ref[l], ref[r] = lo, hi
				} else {
					ref[l], ref[r] = hi, lo
				}
			}
		}
	}
	same, sorted := true, true
	for i := 0; i < n; i++ {
		v := mem.Get32(arr + uint64(4*i))
		same = verif.And(same, v == ref[i])
		if i+1 < n {
			w := mem.Get32(arr + uint64(4*(i+1)))
			if dir == 1 {
				sorted = verif.And(sorted, v <= w)
			} else {
				sorted = verif.And(sorted, v >= w)
			}
		}
	}
	verif.Assert(same, "bitonicsort: device array differs from the reference network")
	verif.Assert(sorted, "bitonicsort: result not sorted (Benchmark.Verify)")
	verif.Observe(uint64(mem.Get32(arr)))
}
