package emu

// C07 harness, emulation-mode register store (emu.Wavefront) against the
// shared flat cell model (zzverif/regmodel).

import (
	verif "github.com/sarchlab/mgpusim/v4/zzverif"
	rm "github.com/sarchlab/mgpusim/v4/zzverif/regmodel"
	"github.com/sarchlab/mgpusim/v4/zzverif/abimodel"
)

// zzvState builds a wavefront with symbolic register contents and the
// matching cell model. VGPR contents are symbolic in the window [idx,idx+w) of
// lane `lane` and concretely zero elsewhere (a stray write anywhere in the
// file is therefore visible as a non-zero / symbolic cell).
func zzvState(kind, idx, w, lane int) (*Wavefront, *rm.Cells) {
	wf := NewWavefront(nil)
	m := &rm.Cells{}
	sb := verif.Bytes(len(wf.SRegFile))
	copy(wf.SRegFile, sb)
	for i := 0; i < 102; i++ {
		m.Sgpr[i] = rm.LE32(sb[4*i:])
	}
	if kind == rm.VGPR {
		for r := idx; r < idx+w; r++ {
			off := lane*1024 + r*4
			vb := verif.Bytes(4)
			copy(wf.VRegFile[off:off+4], vb)
			m.Vgpr[r] = rm.LE32(vb)
		}
	}
	wf.vcc = verif.U64()
	wf.exec = verif.U64()
	wf.M0 = verif.U32()
	wf.scc = verif.U8()
	m.VccLo, m.VccHi = uint32(wf.vcc), uint32(wf.vcc>>32)
	m.ExecLo, m.ExecHi = uint32(wf.exec), uint32(wf.exec>>32)
	m.M0, m.Scc = wf.M0, wf.scc
	return wf, m
}

func zzvCheckState(wf *Wavefront, m *rm.Cells, lane int, what string) {
	for i := 0; i < 102; i++ {
		verif.Assert(rm.LE32(wf.SRegFile[4*i:]) == m.Sgpr[i], "SGPR file differs from the cell model after "+what)
	}
	for l := 0; l < 64; l++ {
		for r := 0; r < 256; r++ {
			off := l*1024 + r*4
			b := wf.VRegFile[off : off+4]
			v := uint32(b[0]) | uint32(b[1])<<8 | uint32(b[2])<<16 | uint32(b[3])<<24
			if l == lane {
				verif.Assert(v == m.Vgpr[r], "VGPR file differs from the cell model after "+what)
			} else {
				verif.Assert(v == 0, "another lane's VGPRs changed after "+what)
			}
		}
	}
	verif.Assert(wf.vcc == uint64(m.VccLo)|uint64(m.VccHi)<<32, "VCC differs from the cell model after "+what)
	verif.Assert(wf.exec == uint64(m.ExecLo)|uint64(m.ExecHi)<<32, "EXEC differs from the cell model after "+what)
	verif.Assert(wf.M0 == m.M0, "M0 differs from the cell model after "+what)
	verif.Assert(wf.scc == m.Scc, "SCC differs from the cell model after "+what)
}

// VerifRegWrite: one write through WriteOperand / WriteOperandBytes from an
// arbitrary register state leaves exactly the cell model's state: the named
// cells hold the value; every other register, half and lane is unchanged.
// (Inductive step: covers write histories of any length.)
func VerifRegWrite() {
	full := verif.Param("full", 0) == 1
	k, idx, cnt, ok := rm.Pick(full, 16)
	if !ok {
		return
	}
	lane := rm.PickLane(k, full)
	wf, m := zzvState(k, idx, rm.Width(k, cnt), lane)
	rm.DoWrite(wf, m, k, idx, cnt, lane)
	zzvCheckState(wf, m, lane, "a write to "+rm.Tag(k, cnt))
	verif.Observe(wf.vcc)
	verif.Observe(uint64(rm.LE32(wf.SRegFile[0:])))
}

// VerifRegRead: one read through ReadOperand / ReadOperandBytes from an
// arbitrary register state returns the cell model's answer and changes
// nothing. Widths up to 8 dwords: no decodable instruction reads a 16-dword
// operand (RegCount 16 is only produced for the destination of
// s_load_dwordx16).
func VerifRegRead() {
	full := verif.Param("full", 0) == 1
	k, idx, cnt, ok := rm.Pick(full, 8)
	if !ok {
		return
	}
	lane := rm.PickLane(k, full)
	wf, m := zzvState(k, idx, rm.Width(k, cnt), lane)
	rm.DoRead(wf, m, k, idx, cnt, lane)
	zzvCheckState(wf, m, lane, "a read of "+rm.Tag(k, cnt))
}

// VerifInitWfRegs (C08/C02): emulation-mode register initialisation at dispatch
// against the ABI model (zzverif/abimodel).
func VerifInitWfRegs() {
	c := abimodel.NewCase(verif.Param("queuePtr", 0) == 1)
	wf := NewWavefront(c.WF)
	cu := &ComputeUnit{}
	cu.initWfRegs(wf)
	c.Check(wf.PC(), wf.EXEC(),
		func(i int) uint32 { return rm.LE32(wf.SRegFile[4*i:]) },
		func(lane, i int) uint32 { return rm.LE32(wf.VRegFile[lane*1024+4*i:]) }, "emu")
}
