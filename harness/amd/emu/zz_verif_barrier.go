package emu

// C14 harness, functional emulator: emu.ComputeUnit.runWG (runWfUntilBarrier /
// resolveBarrier) on a real divergent GCN3 program: every wavefront branches on
// its work-item id to its own straight-line section (early exit, one barrier,
// two barriers). The executed-instruction hook is the observation point.

import (
	"os"

	"github.com/sarchlab/akita/v4/mem/vm"
	"github.com/sarchlab/akita/v4/sim"
	"github.com/sarchlab/mgpusim/v4/amd/insts"
	"github.com/sarchlab/mgpusim/v4/amd/kernels"
	"github.com/sarchlab/mgpusim/v4/amd/protocol"
	verif "github.com/sarchlab/mgpusim/v4/zzverif"
	"github.com/sarchlab/mgpusim/v4/zzverif/simstub"
)

type zzvFlat struct{ b []byte }

func (s *zzvFlat) Read(pid vm.PID, a, n uint64) []byte {
	out := make([]byte, n)
	if a < uint64(len(s.b)) {
		copy(out, s.b[a:])
	}
	return out
}
func (s *zzvFlat) Write(pid vm.PID, a uint64, d []byte) { copy(s.b[a:], d) }

type zzvEvt struct {
	wf   int
	addr uint64
}

type zzvLog struct{ evts []zzvEvt }

func (l *zzvLog) Func(ctx sim.HookCtx) {
	wf, ok := ctx.Item.(*Wavefront)
	inst, ok2 := ctx.Detail.(*insts.Inst)
	if ok && ok2 && inst.FormatType == insts.SOPP && inst.Opcode >= 2 && inst.Opcode <= 9 {
		return // branches: the PC no longer tells the instruction's address
	}
	if ok && ok2 {
		l.evts = append(l.evts, zzvEvt{wf.FirstWiFlatID / 64, wf.PC() - uint64(inst.ByteSize)})
	}
}

// VerifEmuBarrier: 1-3 wavefronts, each running one of four sections; no
// wavefront runs past its k-th barrier before every other wavefront that has
// not ended has executed its k-th barrier; every instruction of every section
// runs exactly once; the work-group completes.
func VerifEmuBarrier() {
	const (
		base    = uint64(0x1000)
		endpgm  = uint32(0xBF810000)
		barrier = uint32(0xBF8A0000)
		nop     = uint32(0xBF800000)
	)
	st := &zzvFlat{b: make([]byte, 0x2000)}
	put := func(a uint64, w uint32) { st.b[a], st.b[a+1], st.b[a+2], st.b[a+3] = byte(w), byte(w>>8), byte(w>>16), byte(w>>24) }
	br := func(op uint32, at, target uint64) uint32 { return op | uint32(uint16(int16((int64(target)-int64(at+4))/4))) }
	sec := []uint64{base + 0x40, base + 0x80, base + 0xC0}
	put(base+0x00, 0x7E140500)                              // v_readfirstlane_b32 s10, v0
	put(base+0x04, 0xBF0AC00A)                              // s_cmp_lt_u32 s10, 64
	put(base+0x08, br(0xBF850000, base+0x08, sec[0]))       // s_cbranch_scc1 section 0
	put(base+0x0C, 0xBF0AFF0A)                              // s_cmp_lt_u32 s10, 128 (literal)
	put(base+0x10, 128)
	put(base+0x14, br(0xBF850000, base+0x14, sec[1]))       // s_cbranch_scc1 section 1
	put(base+0x18, br(0xBF820000, base+0x18, sec[2]))       // s_branch section 2
	n := 1 + verif.Choice(verif.Param("maxWf_emu", 3))
	type prog struct {
		addrs    []uint64
		barriers []uint64
	}
	progs := make([]*prog, n)
	for i := 0; i < n; i++ {
		p := &prog{}
		pc := sec[i]
		emit := func(w uint32) {
			if w == barrier {
				p.barriers = append(p.barriers, pc)
			}
			p.addrs = append(p.addrs, pc)
			put(pc, w)
			pc += 4
		}
		switch verif.Choice(4) {
		case 0:
		case 1:
			emit(barrier)
			emit(nop)
		case 2:
			emit(nop)
			emit(barrier)
			emit(nop)
			emit(barrier)
			emit(nop)
		case 3:
			emit(nop)
		}
		emit(endpgm)
		progs[i] = p
	}
	co := &insts.KernelCodeObject{KernelCodeObjectMeta: &insts.KernelCodeObjectMeta{WFSgprCount: 16, WIVgprCount: 4}}
	pkt := &kernels.HsaKernelDispatchPacket{WorkgroupSizeX: uint16(64 * n), WorkgroupSizeY: 1, WorkgroupSizeZ: 1,
		GridSizeX: uint32(64 * n), GridSizeY: 1, GridSizeZ: 1, KernelObject: base}
	gb := kernels.NewGridBuilder()
	gb.SetKernel(kernels.KernelLaunchInfo{CodeObject: co, Packet: pkt})
	raw := gb.NextWG()
	engine := simstub.NewEngine()
	cu := NewComputeUnit("CU", engine, insts.NewDisassembler(), NewALU(st), st)
	log := &zzvLog{}
	cu.AcceptHook(log)
	req := protocol.MapWGReqBuilder{}.WithSrc("ACE").WithDst(cu.ToDispatcher.AsRemote()).WithPID(1).WithWG(raw).Build()
	cu.wfs[raw] = make([]*Wavefront, 0, 64)
	cu.runWG(req)
	if os.Getenv("ZZV_DEBUG") != "" {
		for _, ev := range log.evts {
			println(ev.wf, ev.addr)
		}
	}

	// replay the log against the ordering rule
	pos := make([]int, n)     // index of the next expected instruction of the section
	nbar := make([]int, n)    // barriers executed
	ended := make([]bool, n)
	for _, ev := range log.evts {
		if ev.addr < sec[0] {
			continue // the common prologue
		}
		p := progs[ev.wf]
		verif.Assert(pos[ev.wf] < len(p.addrs) && p.addrs[pos[ev.wf]] == ev.addr, "emulator: a wavefront skipped, repeated or left its section")
		pos[ev.wf]++
		passed := 0
		for _, b := range p.barriers {
			if ev.addr > b {
				passed++
			}
		}
		for o := 0; o < n; o++ {
			if o != ev.wf && !ended[o] {
				verif.Assert(nbar[o] >= passed, "emulator: a wavefront ran past a barrier that another unfinished wavefront had not reached")
			}
		}
		for _, b := range p.barriers {
			if ev.addr == b {
				nbar[ev.wf]++
			}
		}
		if ev.addr == p.addrs[len(p.addrs)-1] {
			ended[ev.wf] = true
		}
	}
	for i := 0; i < n; i++ {
		verif.Assert(ended[i] && pos[i] == len(progs[i].addrs), "emulator: a wavefront did not run its section to the end")
	}
	verif.Assert(cu.isAllWfCompleted(raw), "emulator: work-group not completed")
	verif.Assert(engine.Scheduled == 1, "emulator: work-group completion not scheduled exactly once")
}
