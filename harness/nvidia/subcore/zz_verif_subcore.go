package subcore

func (s *Subcore) ZzvIdle() bool { return s.unfinishedInstsCount == 0 && s.finishedWarpsCount == 0 }
