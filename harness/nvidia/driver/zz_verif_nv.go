package driver

// C20 harness: the whole NVIDIA trace-driven pipeline (driver, devices, SMs,
// sub-cores, real akita direct connections and serial engine) on small
// symbolic traces: conservation of work and termination.

import (
	"github.com/sarchlab/akita/v4/sim"
	"github.com/sarchlab/mgpusim/v4/nvidia/gpu"
	"github.com/sarchlab/mgpusim/v4/nvidia/nvidiaconfig"
	verif "github.com/sarchlab/mgpusim/v4/zzverif"
)

// VerifNvidiaConservation: for a platform shape (devices x SMs x sub-cores)
// and a ragged trace (kernels x blocks x warps) with symbolic per-warp
// instruction counts n in [0,3] (0 only if zeroInst=1): the run terminates
// (the serial engine runs out of events), every kernel is reported finished,
// every unit is idle, and the executed instruction count equals the trace's.
func VerifNvidiaConservation() { zzvNvidia("") }

// VerifNvidiaZeroInst: the same obligations when warps may have zero instructions.
func VerifNvidiaZeroInst() { zzvNvidia(" [trace may contain zero-instruction warps]") }

func zzvNvidia(tag string) {
	shapes := [][3]int{{1, 1, 1}, {1, 1, 2}, {1, 2, 1}, {1, 3, 1}, {2, 1, 1}, {1, 2, 2}}
	sh := shapes[verif.Choice(verif.Param("nvShapes", len(shapes)))]
	traces := [][][]int{ // kernels -> blocks -> warps per block
		{{1}}, {{2}}, {{1, 2}}, {{1}, {1}}, {{2, 1}, {1}}, {{3}},
	}
	tr := traces[verif.Choice(verif.Param("nvTraces", len(traces)))]
	minInst := int64(1)
	if verif.Param("zeroInst", 0) == 1 {
		minInst = 0
	}
	engine := sim.NewSerialEngine()
	d := new(DriverBuilder).WithEngine(engine).WithFreq(1 * sim.GHz).Build("Driver")
	var gpus []*gpu.GPU
	for i := 0; i < sh[0]; i++ {
		g := new(gpu.GPUBuilder).WithEngine(engine).WithFreq(1 * sim.GHz).
			WithSMsCount(int64(sh[1])).WithSubcoresCountPerSM(int64(sh[2])).Build("GPU" + string(rune('0'+i)))
		d.RegisterGPU(g)
		gpus = append(gpus, g)
	}
	var total int64
	var nWarps int64
	for _, blocks := range tr {
		k := &nvidiaconfig.Kernel{}
		for _, nw := range blocks {
			tb := nvidiaconfig.Threadblock{WarpsCount: int64(nw)}
			for w := 0; w < nw; w++ {
				n := verif.I64()
				verif.Assume(verif.And(n >= minInst, n <= 3))
				tb.Warps = append(tb.Warps, nvidiaconfig.Warp{InstructionsCount: n})
				total += n
				nWarps++
			}
			k.Threadblocks = append(k.Threadblocks, tb)
		}
		k.ThreadblocksCount = int64(len(blocks))
		d.RunKernel(k)
	}
	d.TickLater()
	engine.Run() // termination: the interpreter's instruction budget bounds this call
	verif.Assert(d.unfinishedKernelsCount == 0, "the run ended with kernels not reported finished"+tag)
	verif.Assert(len(d.undispatchedKernels) == 0, "the run ended with undispatched kernels"+tag)
	verif.Assert(len(d.freeDevices) == len(gpus), "the run ended with a device still busy (or freed more than once)"+tag)
	var executed, warps int64
	for _, g := range gpus {
		executed += g.ZzvInsts()
		warps += g.ZzvWarps()
		verif.Assert(g.ZzvIdle(), "the run ended with an SM or sub-core not idle"+tag)
	}
	verif.Assert(executed == total, "the number of executed instructions differs from the number in the trace"+tag)
	verif.Assert(warps == nWarps, "the number of warps executed differs from the number in the trace"+tag)
	verif.Observe(uint64(executed))
}
