package gpu

// observation helpers for the C20 harness (read-only)

func (g *GPU) ZzvInsts() int64 {
	var n int64
	for _, s := range g.SMs {
		n += s.ZzvInsts()
	}
	return n
}

func (g *GPU) ZzvWarps() int64 {
	var n int64
	for _, s := range g.SMs {
		n += s.GetTotalWarpsCount()
	}
	return n
}

func (g *GPU) ZzvIdle() bool {
	if len(g.freeSMs) != len(g.SMs) || len(g.undispatchedThreadblocks) != 0 || g.unfinishedThreadblocksCount != 0 || g.finishedKernelsCount != 0 {
		return false
	}
	for _, s := range g.SMs {
		if !s.ZzvIdle() {
			return false
		}
	}
	return true
}
