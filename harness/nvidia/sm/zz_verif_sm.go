package sm

func (s *SM) ZzvInsts() int64 {
	var n int64
	for _, c := range s.Subcores {
		n += c.GetTotalInstsCount()
	}
	return n
}

func (s *SM) ZzvIdle() bool {
	if len(s.freeSubcores) != len(s.Subcores) || len(s.undispatchedWarps) != 0 || s.unfinishedWarpsCount != 0 || s.finishedThreadblocksCount != 0 {
		return false
	}
	for _, c := range s.Subcores {
		if !c.ZzvIdle() {
			return false
		}
	}
	return true
}
