// Package zzverif is the harness API of the gosym checks. It exists only in
// overlays (never written under /repo). Under the symbolic interpreter every
// function here is intercepted; the bodies below are the *native* semantics
// used when a counterexample is replayed with `go test -overlay`: inputs come
// from the recorded vector, Assert failures are reported through Failed.
package zzverif

import (
	"encoding/json"
	"fmt"
	"os"
)

type replayFile struct {
	Entry  string   `json:"entry"`
	Vector []uint64 `json:"vector"`
	Kind   string   `json:"kind"`
	Site   string   `json:"site"`
	Msg    string   `json:"msg"`
	Params map[string]int `json:"params"`
	Sched  []SchedStep    `json:"sched"`
}

var params map[string]int
var kind string

// Kind of the replayed record ("witness", "assert", "panic", "deadlock").
func Kind() string { return kind }

// Param returns a check parameter (tier-dependent bound) or dflt.
func Param(name string, dflt int) int {
	if v, ok := params[name]; ok {
		return v
	}
	return dflt
}

var (
	vec     []uint64
	pos     int
	Failed  []string
	Covered []string
	loaded  bool
)

// AssumeViolated is panicked when a replayed vector violates an Assume.
type AssumeViolated struct{}

func Load(path string) (entry string) {
	b, err := os.ReadFile(path)
	if err != nil {
		panic(err)
	}
	var r replayFile
	if err := json.Unmarshal(b, &r); err != nil {
		panic(err)
	}
	vec, pos, loaded = r.Vector, 0, true
	params = r.Params
	schedule = r.Sched
	kind = r.Kind
	Observed = nil
	Failed = nil
	return r.Entry
}

func next() uint64 {
	if pos >= len(vec) {
		pos++
		return 0
	}
	v := vec[pos]
	pos++
	return v
}

func Bool() bool   { return next() != 0 }
func U8() uint8    { return uint8(next()) }
func U16() uint16  { return uint16(next()) }
func U32() uint32  { return uint32(next()) }
func U64() uint64  { return next() }
func I32() int32   { return int32(next()) }
func I64() int64   { return int64(next()) }
func Int() int     { return int(next()) }
func Choice(n int) int {
	v := int(next())
	if v < 0 || v >= n {
		return 0
	}
	return v
}
func Bytes(n int) []byte {
	b := make([]byte, n)
	for i := range b {
		b[i] = uint8(next())
	}
	return b
}
func Assume(c bool) {
	if !c {
		panic(AssumeViolated{})
	}
}
func Assert(c bool, msg string) {
	if !c {
		Failed = append(Failed, msg)
	}
}
// Holds reports whether c is implied on the current path (symbolic run: one
// solver query; native run: the concrete value of c).
func Holds(c bool) bool { return c }
func Fail(msg string)             { Failed = append(Failed, msg) }
func Cover(label string)          { Covered = append(Covered, label) }
func And(a, b bool) bool          { return a && b }
func Or(a, b bool) bool           { return a || b }
func Implies(a, b bool) bool      { return !a || b }
func Ite64(c bool, a, b uint64) uint64 {
	if c {
		return a
	}
	return b
}
func Ite32(c bool, a, b uint32) uint32 {
	if c {
		return a
	}
	return b
}
func Ite8(c bool, a, b uint8) uint8 {
	if c {
		return a
	}
	return b
}
func IteInt(c bool, a, b int) int {
	if c {
		return a
	}
	return b
}
func IteBool(c bool, a, b bool) bool {
	if c {
		return a
	}
	return b
}
func IsSymbolic() bool          { return false }
func Concretize(x uint64) uint64 { return x }

var Observed []uint64

// Observe records an output value; the symbolic run predicts it from the
// model and the native replay must produce the same number.
func Observe(x uint64) { Observed = append(Observed, x) }

// Report prints the replay verdict (used by the generated replay test).
func Report() string {
	if len(Failed) == 0 {
		return fmt.Sprintf("REPLAY-PASS observed=%v", Observed)
	}
	return fmt.Sprintf("REPLAY-FAIL %q", Failed)
}
