// Package abimodel is the reference for wavefront register initialisation at
// dispatch (AMDGPU HSA ABI: order of enabled user/system SGPRs, work-item id
// VGPRs), shared by the emulation-mode and timing-mode harnesses of C08/C02.
package abimodel

import (
	"github.com/sarchlab/mgpusim/v4/amd/insts"
	"github.com/sarchlab/mgpusim/v4/amd/kernels"
	verif "github.com/sarchlab/mgpusim/v4/zzverif"
)

var Shapes = [][3]int{{64, 1, 1}, {16, 16, 1}, {48, 4, 1}, {7, 5, 3}, {8, 8, 4}, {100, 2, 1}}

// Case is one symbolic dispatch situation.
type Case struct {
	Shape      [3]int
	CO         *insts.KernelCodeObject
	Pkt        *kernels.HsaKernelDispatchPacket
	WG         *kernels.WorkGroup
	WF         *kernels.Wavefront
	V5         bool
	WithQueue  bool
}

// NewCase draws a dispatch situation: shape and first flat id are enumerated,
// enable flags / addresses / work-group ids are symbolic.
func NewCase(allowQueuePtr bool) *Case {
	c := &Case{}
	c.Shape = Shapes[verif.Choice(verif.Param("abiShapes", len(Shapes)))]
	prod := c.Shape[0] * c.Shape[1] * c.Shape[2]
	nwf := (prod + 63) / 64
	first := 64 * verif.Choice(nwf)
	co := &insts.KernelCodeObject{KernelCodeObjectMeta: &insts.KernelCodeObjectMeta{}}
	c.V5 = verif.Choice(2) == 1
	if c.V5 {
		co.Version = insts.CodeObjectV5
	} else {
		co.Version = insts.CodeObjectV3
	}
	co.EnableSgprPrivateSegmentBuffer = verif.Bool()
	co.EnableSgprDispatchPtr = verif.Bool()
	if allowQueuePtr {
		co.EnableSgprQueuePtr = verif.Bool()
		co.EnableSgprPrivateSegmentSize = verif.Bool()
	}
	co.EnableSgprKernargSegmentPtr = verif.Bool()
	co.EnableSgprDispatchID = verif.Bool()
	co.EnableSgprFlatScratchInit = verif.Bool()
	co.EnableSgprGridWorkgroupCountX = verif.Bool()
	co.EnableSgprGridWorkgroupCountY = verif.Bool()
	co.EnableSgprGridWorkgroupCountZ = verif.Bool()
	// work-group id enables (bits 7..9) and work-item id VGPR count (bits 12:11)
	co.ComputePgmRsrc2 = []uint32{7, 1, 3, 0, 5}[verif.Choice(5)]<<7 | uint32(verif.Choice(3))<<11
	co.KernelCodeEntryByteOffset = 256
	c.CO = co
	c.Pkt = &kernels.HsaKernelDispatchPacket{
		WorkgroupSizeX: uint16(c.Shape[0]), WorkgroupSizeY: uint16(c.Shape[1]), WorkgroupSizeZ: uint16(c.Shape[2]),
		GridSizeX: uint32(c.Shape[0]) * 3, GridSizeY: uint32(c.Shape[1])*2 + 1, GridSizeZ: uint32(c.Shape[2]),
		KernelObject: verif.U64(), KernargAddress: verif.U64(),
	}
	c.WG = kernels.NewWorkGroup()
	c.WG.SizeX, c.WG.SizeY, c.WG.SizeZ = c.Shape[0], c.Shape[1], c.Shape[2]
	c.WG.IDX, c.WG.IDY, c.WG.IDZ = int(verif.U16()), int(verif.U16()), int(verif.U16())
	c.WG.Packet, c.WG.CodeObject = c.Pkt, co
	c.WF = kernels.NewWavefront()
	c.WF.WG, c.WF.CodeObject, c.WF.Packet = c.WG, co, c.Pkt
	c.WF.PacketAddress = verif.U64()
	c.WF.FirstWiFlatID = first
	c.WF.InitExecMask = verif.U64()
	return c
}

// Check compares the initialised state with the ABI.
// sreg(i) reads SGPR i of the wavefront, vreg(lane, i) reads VGPR i of a lane.
func (c *Case) Check(pc, exec uint64, sreg func(i int) uint32, vreg func(lane, i int) uint32, mode string) {
	co, pkt := c.CO, c.Pkt
	verif.Assert(pc == pkt.KernelObject+co.KernelCodeEntryByteOffset, mode+": PC is not kernel object + entry offset")
	verif.Assert(exec == c.WF.InitExecMask, mode+": EXEC is not the wavefront's initial mask")
	p := 0
	if co.EnableSgprPrivateSegmentBuffer {
		p += 4
	}
	if co.EnableSgprDispatchPtr {
		verif.Assert(uint64(sreg(p))|uint64(sreg(p+1))<<32 == c.WF.PacketAddress, mode+": dispatch pointer SGPRs wrong or misplaced")
		p += 2
	}
	if co.EnableSgprQueuePtr {
		p += 2
	}
	if co.EnableSgprKernargSegmentPtr {
		verif.Assert(uint64(sreg(p))|uint64(sreg(p+1))<<32 == pkt.KernargAddress, mode+": kernarg pointer SGPRs wrong or misplaced")
		p += 2
	}
	if co.EnableSgprDispatchID {
		p += 2
	}
	if co.EnableSgprFlatScratchInit {
		p += 2
	}
	if co.EnableSgprPrivateSegmentSize {
		p++
	}
	cnt := func(g uint32, w uint16) uint32 { return (g + uint32(w) - 1) / uint32(w) }
	if co.EnableSgprGridWorkgroupCountX {
		verif.Assert(sreg(p) == cnt(pkt.GridSizeX, pkt.WorkgroupSizeX), mode+": work-group count X SGPR wrong or misplaced")
		p++
	}
	if co.EnableSgprGridWorkgroupCountY {
		verif.Assert(sreg(p) == cnt(pkt.GridSizeY, pkt.WorkgroupSizeY), mode+": work-group count Y SGPR wrong or misplaced")
		p++
	}
	if co.EnableSgprGridWorkgroupCountZ {
		verif.Assert(sreg(p) == cnt(pkt.GridSizeZ, pkt.WorkgroupSizeZ), mode+": work-group count Z SGPR wrong or misplaced")
		p++
	}
	if co.EnableSgprWorkGroupIDX() {
		verif.Assert(sreg(p) == uint32(c.WG.IDX), mode+": work-group id X SGPR wrong or misplaced")
		p++
	}
	if co.EnableSgprWorkGroupIDY() {
		verif.Assert(sreg(p) == uint32(c.WG.IDY), mode+": work-group id Y SGPR wrong or misplaced")
		p++
	}
	if co.EnableSgprWorkGroupIDZ() {
		verif.Assert(sreg(p) == uint32(c.WG.IDZ), mode+": work-group id Z SGPR wrong or misplaced")
		p++
	}
	// work-item ids: lane l is the work-item with flattened id First+l
	sx, sy := c.Shape[0], c.Shape[1]
	nid := int(co.EnableVgprWorkItemID())
	for lane := 0; lane < 64; lane++ {
		flat := c.WF.FirstWiFlatID + lane
		x, y, z := flat%sx, flat/sx%sy, flat/(sx*sy)
		if c.V5 {
			verif.Assert(vreg(lane, 0) == uint32(x)|uint32(y)<<10|uint32(z)<<20, mode+": packed work-item id (code object v5) wrong")
			continue
		}
		verif.Assert(vreg(lane, 0) == uint32(x), mode+": work-item id X wrong")
		if nid > 0 {
			verif.Assert(vreg(lane, 1) == uint32(y), mode+": work-item id Y wrong")
		}
		if nid > 1 {
			verif.Assert(vreg(lane, 2) == uint32(z), mode+": work-item id Z wrong")
		}
	}
}
