// Package regmodel is the flat array-of-cells reference model of the
// architectural registers shared by the emulation-mode and timing-mode C07
// harnesses (both stores are compared with this one model, hence with each
// other).
package regmodel

import (
	"github.com/sarchlab/mgpusim/v4/amd/insts"
	verif "github.com/sarchlab/mgpusim/v4/zzverif"
)

// register selector kinds
const (
	SGPR = iota
	VGPR
	VCCLO
	VCCHI
	VCC
	EXECLO
	EXECHI
	EXEC
	M0
	SCC
	NKinds
)

// Cells is the model state: one 32-bit cell per register (VGPRs of the lane
// under test only), halves of VCC/EXEC as separate cells.
type Cells struct {
	Sgpr           [102]uint32
	Vgpr           [256]uint32
	VccLo, VccHi   uint32
	ExecLo, ExecHi uint32
	M0             uint32
	Scc            uint8
}

func LE32(b []byte) uint32 {
	return uint32(b[0]) | uint32(b[1])<<8 | uint32(b[2])<<16 | uint32(b[3])<<24
}

// Operand builds the operand exactly as the decoder does (getOperand + a
// RegCount assigned by the format decoder).
func Operand(kind, idx, count int) *insts.Operand {
	switch kind {
	case SGPR:
		return insts.NewSRegOperand(idx, idx, count)
	case VGPR:
		return insts.NewVRegOperand(256+idx, idx, count)
	case VCCLO:
		return insts.NewRegOperand(106, insts.VCCLO, count)
	case VCCHI:
		return insts.NewRegOperand(107, insts.VCCHI, count)
	case VCC:
		return insts.NewRegOperand(106, insts.VCC, count)
	case EXECLO:
		return insts.NewRegOperand(126, insts.EXECLO, count)
	case EXECHI:
		return insts.NewRegOperand(127, insts.EXECHI, count)
	case EXEC:
		return insts.NewRegOperand(126, insts.EXEC, count)
	case M0:
		return insts.NewRegOperand(124, insts.M0, count)
	case SCC:
		return insts.NewRegOperand(253, insts.SCC, count)
	}
	panic("bad kind")
}

var kindName = []string{"sgpr", "vgpr", "vcc_lo", "vcc_hi", "vcc", "exec_lo", "exec_hi", "exec", "m0", "scc"}
var digits = []string{"0", "1", "2", "3", "4", "5", "6", "7", "8", "9", "10", "11", "12", "13", "14", "15", "16"}

// Tag names the access in assertion messages, e.g. "vcc_hi/count=0".
func Tag(kind, count int) string { return kindName[kind] + "/count=" + digits[count] }

// Width is the number of 32-bit cells the operand names.
func Width(kind, count int) int {
	switch kind {
	case VCC, EXEC:
		return 2
	case SCC:
		return 1
	}
	if count >= 2 {
		return count
	}
	return 1
}

// Cell returns the i-th 32-bit cell named by the operand.
func (c *Cells) Cell(kind, idx, i int) *uint32 {
	switch kind {
	case SGPR:
		return &c.Sgpr[idx+i]
	case VGPR:
		return &c.Vgpr[idx+i]
	case VCCLO, VCC:
		if i == 0 {
			return &c.VccLo
		}
		return &c.VccHi
	case VCCHI:
		return &c.VccHi
	case EXECLO, EXEC:
		if i == 0 {
			return &c.ExecLo
		}
		return &c.ExecHi
	case EXECHI:
		return &c.ExecHi
	case M0:
		return &c.M0
	}
	panic("bad kind")
}

var sIdx = []int{0, 1, 2, 3, 4, 50, 85, 86, 94, 98, 99, 100, 101}
var vIdx = []int{0, 1, 2, 3, 4, 127, 128, 240, 248, 252, 253, 254, 255}
var counts = []int{0, 1, 2, 3, 4, 8, 16}

// Pick chooses (kind, idx, count) the decoder can produce and that names
// existing registers. maxW bounds the width in dwords.
func Pick(full bool, maxW int) (kind, idx, count int, ok bool) {
	kind = verif.Choice(NKinds)
	switch kind {
	case SGPR:
		if full {
			idx = verif.Choice(102)
		} else {
			idx = sIdx[verif.Choice(len(sIdx))]
		}
		count = counts[verif.Choice(len(counts))]
		ok = idx+Width(kind, count) <= 102
	case VGPR:
		if full {
			idx = verif.Choice(256)
		} else {
			idx = vIdx[verif.Choice(len(vIdx))]
		}
		count = counts[verif.Choice(len(counts))]
		ok = idx+Width(kind, count) <= 256
	case VCCLO, EXECLO:
		count = verif.Choice(3) // 0,1 = the half; 2 = the 64-bit pair
		ok = true
	case VCCHI, EXECHI, M0, SCC, VCC, EXEC:
		count = verif.Choice(2)
		ok = true
	}
	if Width(kind, count) > maxW {
		ok = false
	}
	return
}

func PickLane(kind int, full bool) int {
	if kind != VGPR {
		return 0
	}
	if full {
		return verif.Choice(64)
	}
	return []int{0, 1, 31, 32, 63}[verif.Choice(5)]
}

// Store is what a register store under test offers.
type Store interface {
	ReadOperand(operand *insts.Operand, laneID int) uint64
	WriteOperand(operand *insts.Operand, laneID int, value uint64)
	ReadOperandBytes(operand *insts.Operand, laneID int, byteCount int) []byte
	WriteOperandBytes(operand *insts.Operand, laneID int, data []byte)
}

// DoWrite performs one symbolic write on both the store and the model.
func DoWrite(st Store, m *Cells, kind, idx, count, lane int) {
	w := Width(kind, count)
	op := Operand(kind, idx, count)
	if w <= 2 && verif.Choice(2) == 0 {
		x := verif.U64()
		st.WriteOperand(op, lane, x)
		if kind == SCC {
			m.Scc = uint8(x)
		} else {
			*m.Cell(kind, idx, 0) = uint32(x)
			if w == 2 {
				*m.Cell(kind, idx, 1) = uint32(x >> 32)
			}
		}
		return
	}
	data := verif.Bytes(4 * w)
	if kind == SCC {
		data = data[:1]
	}
	st.WriteOperandBytes(op, lane, data)
	if kind == SCC {
		m.Scc = data[0]
	} else {
		for i := 0; i < w; i++ {
			*m.Cell(kind, idx, i) = LE32(data[4*i:])
		}
	}
}

// DoRead performs one read and asserts it against the model.
func DoRead(st Store, m *Cells, kind, idx, count, lane int) {
	w := Width(kind, count)
	op := Operand(kind, idx, count)
	if w <= 2 && verif.Choice(2) == 0 {
		got := st.ReadOperand(op, lane)
		var want uint64
		if kind == SCC {
			want = uint64(m.Scc)
		} else {
			want = uint64(*m.Cell(kind, idx, 0))
			if w == 2 {
				want |= uint64(*m.Cell(kind, idx, 1)) << 32
			}
		}
		verif.Assert(got == want, "ReadOperand "+Tag(kind, count)+" differs from the cell model")
		verif.Observe(got)
		return
	}
	n := 4 * w
	if kind == SCC {
		n = 1
	}
	got := st.ReadOperandBytes(op, lane, n)
	verif.Assert(len(got) == n, "ReadOperandBytes "+Tag(kind, count)+" returned the wrong number of bytes")
	if len(got) != n {
		return
	}
	if kind == SCC {
		verif.Assert(got[0] == m.Scc, "ReadOperandBytes "+Tag(kind, count)+" differs from the cell model")
	} else {
		for i := 0; i < w; i++ {
			verif.Assert(LE32(got[4*i:]) == *m.Cell(kind, idx, i), "ReadOperandBytes "+Tag(kind, count)+" differs from the cell model")
		}
	}
}
