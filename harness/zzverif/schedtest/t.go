// Package schedtest is the self-test of gosym's cooperative goroutine
// scheduler (not a property check): small concurrent programs with a known
// verdict.
package schedtest

import (
	"sync"

	verif "github.com/sarchlab/mgpusim/v4/zzverif"
)

type listener struct{ signal chan bool }

func (l *listener) notify() {
	select {
	case l.signal <- true:
	default:
	}
}

type queue struct {
	mu sync.Mutex
	n  int
	l  *listener
}

func (q *queue) num() int { q.mu.Lock(); defer q.mu.Unlock(); return q.n }
func (q *queue) deq()     { q.mu.Lock(); q.n--; q.mu.Unlock(); q.l.notify() }

func drain(q *queue) {
	for {
		if q.num() == 0 {
			return
		}
		<-q.l.signal
	}
}

// LostWakeup must deadlock on some schedule: the notification is dropped
// when it arrives between the emptiness check and the wait.
func LostWakeup() {
	q := &queue{n: 1, l: &listener{signal: make(chan bool)}}
	go q.deq()
	drain(q)
	verif.Assert(q.num() == 0, "drained queue not empty")
}

// BufferedWakeup is the repaired version: never deadlocks.
func BufferedWakeup() {
	q := &queue{n: 1, l: &listener{signal: make(chan bool, 1)}}
	go q.deq()
	drain(q)
	verif.Assert(q.num() == 0, "drained queue not empty")
}

// Counter: two workers increment under a mutex; main waits on a WaitGroup.
func Counter() {
	var mu sync.Mutex
	var wg sync.WaitGroup
	c := 0
	wg.Add(2)
	for i := 0; i < 2; i++ {
		go func() {
			mu.Lock()
			c++
			mu.Unlock()
			wg.Done()
		}()
	}
	wg.Wait()
	verif.Assert(c == 2, "lost update under a mutex")
}

// RacyCounter: read and write in separate critical sections: the final value
// can be 1 (the scheduler must find that schedule).
func RacyCounter() {
	var mu sync.Mutex
	var wg sync.WaitGroup
	c := 0
	wg.Add(2)
	for i := 0; i < 2; i++ {
		go func() {
			mu.Lock()
			v := c
			mu.Unlock()
			mu.Lock()
			c = v + 1
			mu.Unlock()
			wg.Done()
		}()
	}
	wg.Wait()
	verif.Assert(c == 2, "lost update (expected finding)")
}

// PingPong: unbuffered rendezvous in both directions, closing ends a range.
func PingPong() {
	a, b := make(chan int), make(chan int)
	go func() {
		for v := range a {
			b <- v + 1
		}
		close(b)
	}()
	sum := 0
	for i := 0; i < 3; i++ {
		a <- i
		sum += <-b
	}
	close(a)
	_, ok := <-b
	verif.Assert(!ok && sum == 6, "ping-pong values wrong")
}

// SelfDeadlock: locking a mutex twice.
func SelfDeadlock() {
	var mu sync.Mutex
	mu.Lock()
	mu.Lock()
}
