package zzverif

// Native side of gosym's controlled goroutine scheduling. When a finding
// depends on the interleaving of goroutines, the replay build instruments the
// focus packages' sources (regenerated from the current tree): before every
// synchronisation operation a call SchedPoint(what), go statements through
// SchedGo. The recorded schedule (which thread passes which scheduling point,
// in order) is then enforced here; between scheduling points goroutines run
// freely. Without a recorded schedule both functions are no-ops / plain go.

import (
	"bytes"
	"fmt"
	"runtime"
	"strconv"
	"strings"
	"sync"
	"time"
)

type SchedStep struct {
	T     int    `json:"t"`
	Yield bool   `json:"y"` // the thread was waiting at a scheduling point (else: blocked inside an operation)
	What  string `json:"w"`
}

type nthread struct {
	id       int
	goid     int64
	atPoint  bool
	what     string
	release  chan struct{}
	finished bool
}

var (
	schedule   []SchedStep
	schedOn    bool
	schedMu    sync.Mutex
	nthreads   []*nthread
	byGoid     = map[int64]*nthread{}
	schedFree  bool // schedule exhausted: every point passes
	SchedError string
)

func goid() int64 {
	var buf [64]byte
	n := runtime.Stack(buf[:], false)
	// "goroutine 123 [running]:..."
	f := bytes.Fields(buf[:n])
	id, _ := strconv.ParseInt(string(f[1]), 10, 64)
	return id
}

// SchedPoint is inserted before (after, for releases) every synchronisation
// operation of the focus packages.
func SchedPoint(what string) {
	if !schedOn {
		return
	}
	schedMu.Lock()
	if schedFree {
		schedMu.Unlock()
		return
	}
	t := byGoid[goid()]
	if t == nil { // a goroutine the schedule does not know (started outside instrumented code)
		schedMu.Unlock()
		return
	}
	t.atPoint, t.what = true, what
	schedMu.Unlock()
	<-t.release
}

// SchedGo replaces a go statement of the focus packages.
func SchedGo(f func()) {
	if !schedOn {
		go f()
		return
	}
	schedMu.Lock()
	t := &nthread{id: len(nthreads), release: make(chan struct{}, 1)}
	nthreads = append(nthreads, t)
	schedMu.Unlock()
	started := make(chan struct{})
	go func() {
		schedMu.Lock()
		t.goid = goid()
		byGoid[t.goid] = t
		schedMu.Unlock()
		close(started)
		defer func() {
			schedMu.Lock()
			t.finished = true
			schedMu.Unlock()
		}()
		SchedPoint("start")
		f()
	}()
	<-started
}

// goroutine states that mean "blocked inside a synchronisation operation"
var blockedStates = []string{"chan receive", "chan send", "select", "sync.Mutex.Lock", "sync.RWMutex", "semacquire", "sync.WaitGroup.Wait", "sync.Cond.Wait"}

func goroutineStates() map[int64]string {
	buf := make([]byte, 1<<20)
	n := runtime.Stack(buf, true)
	st := map[int64]string{}
	for _, l := range strings.Split(string(buf[:n]), "\n") {
		if !strings.HasPrefix(l, "goroutine ") {
			continue
		}
		rest := l[len("goroutine "):]
		sp := strings.IndexByte(rest, ' ')
		if sp < 0 {
			continue
		}
		id, err := strconv.ParseInt(rest[:sp], 10, 64)
		if err != nil {
			continue
		}
		a, b := strings.IndexByte(rest, '['), strings.IndexByte(rest, ']')
		if a >= 0 && b > a {
			st[id] = rest[a+1 : b]
		}
	}
	return st
}

// quiescent: every thread is at a scheduling point, finished, or blocked in
// the runtime.
func quiescent() bool {
	schedMu.Lock()
	defer schedMu.Unlock()
	var st map[int64]string
	for _, t := range nthreads {
		if t.finished || t.atPoint {
			continue
		}
		if t.goid == 0 {
			return false
		}
		if st == nil {
			st = goroutineStates()
		}
		s, ok := st[t.goid]
		if !ok {
			continue // gone
		}
		blocked := false
		for _, b := range blockedStates {
			if strings.HasPrefix(s, b) {
				blocked = true
			}
		}
		if !blocked {
			return false
		}
	}
	return true
}

func waitQuiescent(limit time.Duration) bool {
	deadline := time.Now().Add(limit)
	stable := 0
	for time.Now().Before(deadline) {
		if quiescent() {
			stable++
			if stable >= 3 {
				return true
			}
		} else {
			stable = 0
		}
		time.Sleep(200 * time.Microsecond)
	}
	return false
}

// RunScheduled runs f as thread 0 under the recorded schedule. It returns
// "" when f returned, "deadlock" when the schedule was followed to its end and
// f is blocked for good, or an error description.
func RunScheduled(f func()) (verdict string, panicked any) {
	schedOn = true
	done := make(chan any, 1)
	t0 := &nthread{id: 0, release: make(chan struct{}, 1)}
	nthreads = []*nthread{t0}
	started := make(chan struct{})
	go func() {
		t0.goid = goid()
		schedMu.Lock()
		byGoid[t0.goid] = t0
		schedMu.Unlock()
		close(started)
		defer func() {
			r := recover()
			schedMu.Lock()
			t0.finished = true
			schedMu.Unlock()
			done <- r
		}()
		f()
	}()
	<-started
	for i, e := range schedule {
		if !waitQuiescent(10 * time.Second) {
			return fmt.Sprintf("sched-timeout at step %d", i), nil
		}
		select {
		case r := <-done:
			if r != nil {
				return "", r
			}
			// main returned while other threads still have recorded steps:
			// fine unless main itself was expected at a later point
			for _, rest := range schedule[i:] {
				if rest.T == 0 && rest.Yield {
					return fmt.Sprintf("sched-early-return at step %d of %d", i, len(schedule)), nil
				}
			}
			return "", nil
		default:
		}
		if !e.Yield {
			continue // the thread resumes by itself when its operation completes
		}
		schedMu.Lock()
		if e.T >= len(nthreads) {
			schedMu.Unlock()
			return fmt.Sprintf("sched-mismatch at step %d: thread %d does not exist", i, e.T), nil
		}
		t := nthreads[e.T]
		if !t.atPoint || t.what != e.What {
			msg := fmt.Sprintf("sched-mismatch at step %d: thread %d expected at %q, is at %q (atPoint=%v finished=%v)", i, e.T, e.What, t.what, t.atPoint, t.finished)
			schedMu.Unlock()
			return msg, nil
		}
		t.atPoint = false
		schedMu.Unlock()
		t.release <- struct{}{}
	}
	// schedule exhausted
	if !waitQuiescent(10 * time.Second) {
		// still running freely is fine as long as main returns
	}
	select {
	case r := <-done:
		return "", r
	default:
	}
	// is anybody still waiting at a scheduling point? then the recorded path
	// simply ended here (an assertion fired): let everything run
	schedMu.Lock()
	waiting := false
	for _, t := range nthreads {
		if t.atPoint {
			waiting = true
		}
	}
	if waiting {
		schedFree = true
		for _, t := range nthreads {
			if t.atPoint {
				t.atPoint = false
				t.release <- struct{}{}
			}
		}
	}
	schedMu.Unlock()
	if !waiting {
		// every goroutine is blocked in the runtime and main has not returned
		time.Sleep(50 * time.Millisecond)
		select {
		case r := <-done:
			return "", r
		default:
		}
		if quiescent() {
			return "deadlock", nil
		}
	}
	select {
	case r := <-done:
		return "", r
	case <-time.After(20 * time.Second):
		return "hang after the recorded schedule", nil
	}
}

func HasSchedule() bool { return len(schedule) > 0 }

// PreemptBound sets the preemption bound of the symbolic scheduler for the
// rest of the path (no effect natively).
func PreemptBound(n int) {}

// MapOrder(true): from here on the iteration order of every map range is an
// environment choice of the symbolic run (natively Go's own random order
// applies; a finding's order is reproduced natively by retrying).
func MapOrder(permute bool) {
	if permute {
		MapOrderUsed = true
	}
}

// MapOrderUsed: the entry depends on Go's random map iteration order; the
// native replay repeats it until the recorded failure shows (or gives up).
var MapOrderUsed bool
