// Package simstub holds the environment stubs shared by the component
// harnesses: a passive engine (components are driven by calling Tick) and a
// passive connection (the harness pulls with RetrieveOutgoing and pushes with
// Deliver). Real akita ports, buffers and ticking components are used.
package simstub

import (
	"github.com/sarchlab/akita/v4/sim"
)

// Engine is a sim.Engine that never runs anything: Schedule is a no-op.
type Engine struct {
	sim.HookableBase
	Now       sim.VTimeInSec
	Scheduled int
}

func NewEngine() *Engine                        { return &Engine{} }
func (e *Engine) Schedule(evt sim.Event)        { e.Scheduled++ }
func (e *Engine) CurrentTime() sim.VTimeInSec   { return e.Now }
func (e *Engine) Run() error                    { return nil }
func (e *Engine) Pause()                        {}
func (e *Engine) Continue()                     {}

// Conn is a passive sim.Connection.
type Conn struct {
	sim.HookableBase
	name  string
	Sends int
}

func NewConn(name string) *Conn              { return &Conn{name: name} }
func (c *Conn) Name() string                 { return c.name }
func (c *Conn) PlugIn(port sim.Port)         { port.SetConnection(c) }
func (c *Conn) Unplug(port sim.Port)         {}
func (c *Conn) NotifyAvailable(p sim.Port)   {}
func (c *Conn) NotifySend()                  { c.Sends++ }

// Comp is a passive sim.Component: it owns ports and ignores notifications.
type Comp struct {
	*sim.ComponentBase
	Frees int
}

func NewComp(name string) *Comp               { return &Comp{ComponentBase: sim.NewComponentBase(name)} }
func (c *Comp) Handle(e sim.Event) error      { return nil }
func (c *Comp) NotifyRecv(port sim.Port)      {}
func (c *Comp) NotifyPortFree(port sim.Port)  { c.Frees++ }
