// Package c01data holds the benchmark kernels extracted from the .hsaco files
// of the current tree. This file is only the empty placeholder: the C01 check
// replaces it (overlay) with the output of zzverif/c01extract on every run.
package c01data

import "github.com/sarchlab/mgpusim/v4/amd/insts"

type Kernel struct {
	Meta    insts.KernelCodeObjectMeta
	Version int
	Data    string
}

var Kernels = map[string]*Kernel{}
