#!/usr/bin/env python3
# addcheck.py <ID> <technique> <level text> <level note>  -- registers/updates a gosym check in MANIFEST.json
import json, sys
pid, tech, text, note = sys.argv[1:5]
m = json.load(open('/verif/MANIFEST.json'))
m['checks'] = [c for c in m['checks'] if c['property_id'] != pid]
m['checks'].append({"property_id": pid, "quick_cmd": "/verif/bin/gosym check %s -tier quick" % pid,
  "thorough_cmd": "/verif/bin/gosym check %s -tier thorough" % pid, "evidence_file": "/verif/evidence/%s.json" % pid,
  "replay_cmd_template": "/verif/bin/gosym replay %s {path}" % pid, "engine": "gosym", "technique": tech,
  "level_claimed": {"category": "model_checking", "text": text, "design_ref": "DESIGN.md section 4 " + pid}, "level_note": note})
m['checks'].sort(key=lambda c: c['property_id'])
m['not_applicable'] = [n for n in m['not_applicable'] if n['property_id'] != pid]
if pid not in m['engines'][0]['serves_properties']:
    m['engines'][0]['serves_properties'].append(pid)
    m['engines'][0]['serves_properties'].sort()
json.dump(m, open('/verif/MANIFEST.json', 'w'), indent=1)
